"""C20 — generated Rust objects serialise implementation access; refcounts are atomic.

Lean: MinkModel.Conc (transition system) + MinkProofs.C20 (invariants for every schedule).
Tie: real histories of the multi-threaded stress program (bench/e5: real generated Rust +
/repo's object runtime, real threads) must be behaviours of the model (trace validation by the
Lean driver, hidden fetch_sub steps placed by `Conc.expand`); a text-level scan that every
generated method arm of every generated interface goes through the wrapper's mutex and that the
count is updated with atomic read-modify-write operations of sufficient ordering."""
import concurrent.futures
import os
import re

from bench import idl, e5
from bench.selftest_conc import check as ref_check
from .. import common as C
from .. import engines as E
from .. import gen
from .numbering import finish

DELTA = {"inc": lambda e: e.get("arg", 0), "get": lambda e: 0, "slow": lambda e: 1,
         "both": lambda e: e.get("arg", 0) + (e.get("arg2") or 0)}
LOCK_ARM = re.compile(r"\(\s*\*\s*cx\s*\)\s*\.\s*inner\s*\.\s*lock\s*\(\s*\)[^;{}]*?\.\s*and_then\s*\(\s*\|\s*mut\s+cx\s*\|\s*\{?\s*cx\s*\.\s*r#(\w+)\s*\(", re.S)
BODY_CALL = re.compile(r"cx\s*\.\s*r#(\w+)\s*\(")


def hid(h):
    return int(str(h).lstrip("h"))


def tokens_by_object(events):
    """observed history -> {obj: (t0, h0, [token], [event])}; returns also format problems"""
    objs, pend, problems = {}, {}, []
    for e in events:
        ev = e.get("ev")
        if ev == "end":
            continue
        o, t = e.get("obj"), e.get("tid")
        if ev == "new":
            objs[o] = {"t0": t, "h0": hid(e["h"]), "toks": [], "evs": []}
            continue
        if o not in objs:
            problems.append({"error": "event on an unknown object", "event": e})
            continue
        rec = objs[o]
        tok = None
        if ev == "clone":
            tok = f"cl:{t}:{hid(e['h'])}:{hid(e['new'])}"
        elif ev == "send":
            tok = f"sn:{t}:{hid(e['h'])}:{e['to']}"
        elif ev == "recv":
            tok = f"rc:{t}:{hid(e['h'])}"
        elif ev == "lend":
            tok = f"ln:{t}:{hid(e['h'])}:{e['to']}"
        elif ev == "unlend":
            tok = f"ul:{t}:{hid(e['h'])}:{e['to']}"
        elif ev == "call":
            pend[t] = (o, hid(e["h"]))
            tok = f"ca:{t}:{hid(e['h'])}:{DELTA[e['m']](e)}"
        elif ev in ("enter", "exit"):
            p = pend.get(t)
            if p is None or p[0] != o:
                problems.append({"error": "method body without a call of that thread on that object", "event": e})
                continue
            if ev == "enter":
                if e.get("overlap") is not False:
                    problems.append({"error": "the in-program overlap detector fired: two bodies of one implementation instance ran at the same time", "event": e})
                tok = f"en:{t}:{p[1]}:{e['seen']}"
            else:
                tok = f"ex:{t}:{p[1]}:{e['wrote']}"
        elif ev == "ret":
            if e.get("status") != 0:
                problems.append({"error": "call returned an error status", "event": e})
                continue
            pend.pop(t, None)
            tok = f"rt:{t}:{hid(e['h'])}:{e['total']}"
        elif ev == "drop":
            tok = f"dr:{t}:{hid(e['h'])}"
        elif ev == "impl_drop":
            tok = f"id:{t}"
        elif ev == "dropped":
            tok = f"dd:{t}"
        else:
            problems.append({"error": "unknown event", "event": e})
            continue
        rec["toks"].append(tok)
        rec["evs"].append(e)
    return objs, problems


def validate(ctx, events):
    """every object's history must be accepted by the model and end quiescent with exactly one drop"""
    fails = []
    objs, problems = tokens_by_object(events)
    fails += problems[:3]
    end = events[-1] if events and events[-1].get("ev") == "end" else None
    if end is None:
        fails.append({"error": "no end record (crash / timeout)"})
    elif any(d != 1 for d in end.get("impl_drops", [])):
        fails.append({"error": "drop counters at exit differ from one per object", "impl_drops": end.get("impl_drops")})
    if end is not None and end.get("unwind_drops") is not None and list(end["unwind_drops"]) != [0, 1]:
        fails.append({"error": "an object shared with a thread that panicked while holding a reference was not dropped exactly once, "
                      "after the last handle (expected 0 drops while the creator holds it, 1 afterwards)", "unwind_drops": end["unwind_drops"]})
    for o, rec in sorted(objs.items()):
        ans = ctx.driver.ask(f"conc {rec['t0']} {rec['h0']} " + " ".join(rec["toks"]))
        ctx.bump("driver_requests")
        head = ans[0] if ans else "crash"
        if head.startswith("stuck"):
            i = int(head.split()[1])
            fails.append({"error": "the observed history is not a behaviour of the model (Conc.replay)", "object": o,
                          "at": rec["evs"][i] if i < len(rec["evs"]) else None,
                          "before": rec["evs"][max(0, i - 12):i]})
        elif not head.startswith("ok"):
            fails.append({"error": "driver", "answer": head})
        else:
            kv = dict(x.split("=") for x in head.split()[1:])
            if end is not None and (kv["quiescent"] != "true" or kv["drops"] != "1"):
                fails.append({"error": "after all threads finished the object is not quiescent with exactly one drop of the implementation", "object": o, "model_state": kv})
    return fails, len(objs)


def scan_generated(ctx, n, hist):
    """text-level support: every method arm of the generated skeleton calls the implementation
    inside `(*cx).inner.lock()…and_then(|mut cx| cx.method(..))`"""
    fails = []
    opts = gen.Opts(max_files=1, max_structs=2, max_ifaces=3, max_depth=3, max_methods=4, max_params=4, consts=False, docs=False)
    for i in range(n):
        case = gen.gen_case(ctx.rng, opts, cid=f"C20-{ctx.seed}-{i}")
        with C.Scratch() as tmp:
            root = os.path.join(tmp, "src")
            idl.render_case(case, root)
            res = E.emit_all(ctx, case, root, os.path.join(tmp, "out"), backends=("rust",))
            rc, files, err = res["rust"]
            if rc != 0:
                continue
            for name in idl.iface_table(case):
                fn = name.lower() + ".rs"
                if fn not in files:
                    continue
                text = files[fn]
                want = sorted(m["name"] for _, m, _ in idl.flat_methods(case, name))
                calls = sorted(BODY_CALL.findall(text))
                locked = sorted(LOCK_ARM.findall(text))
                hist["ifaces_scanned"] += 1
                hist["arms_scanned"] += len(want)
                if locked != calls or sorted(set(calls)) != sorted(set(want)) or len(calls) < len(want):
                    fails.append({"error": "a generated method arm does not call the implementation under the wrapper's mutex",
                                  "iface": name, "methods": want, "implementation_calls": calls, "calls_under_lock": locked})
                if "wrapper::release(cx)" not in text.replace(" ", "") or "wrapper::retain(cx)" not in text.replace(" ", ""):
                    fails.append({"error": "retain/release arms do not go to the wrapper", "iface": name})
    return fails


ORD_OK = {"SeqCst", "AcqRel"}


def scan_runtime():
    """the model's atomic steps: wrapper.rs must use one atomic RMW per retain / release, the
    release with an ordering that makes the drop happen after every other thread's last use"""
    text = open(os.path.join(C.REPO, "tests/src/object/wrapper.rs")).read()
    broken = []
    m = re.search(r"pub unsafe fn release.*?\{(.*?)\n\}", text, re.S)
    body = m.group(1) if m else ""
    fs = re.findall(r"refs\s*\.\s*fetch_sub\s*\(\s*1\s*,\s*Ordering::(\w+)\s*\)", body)
    fence = re.search(r"fence\s*\(\s*Ordering::(Acquire|SeqCst|AcqRel)\s*\)", body)
    if len(fs) != 1 or not (fs[0] in ORD_OK or (fs[0] == "Release" and fence)):
        broken.append(f"wrapper.rs release: expected exactly one refs.fetch_sub(1, SeqCst|AcqRel) (or Release + acquire fence), found {fs}")
    if re.search(r"refs\s*\.\s*(load|store)\s*\(", body):
        broken.append("wrapper.rs release reads or writes the count outside the read-modify-write")
    m = re.search(r"pub unsafe fn retain.*?\{(.*?)\n\}", text, re.S)
    body = m.group(1) if m else ""
    if len(re.findall(r"refs\s*\.\s*fetch_add\s*\(\s*1\s*,", body)) != 1 or re.search(r"refs\s*\.\s*(load|store)\s*\(", body):
        broken.append("wrapper.rs retain: expected exactly one refs.fetch_add(1, _)")
    # "for all histories" includes more than 2^32 outstanding references (a 64-bit address space
    # holds them): a counter narrower than the pointer width wraps and the implementation is
    # dropped while referenced. The model counts in unbounded naturals; the runtime's counter
    # must be pointer-wide (no run of the bench could make 2^32 clones within the quick tier).
    narrow = sorted(set(re.findall(r"\bAtomic(U8|I8|U16|I16|U32|I32)\b", text)))
    if narrow:
        broken.append("wrapper.rs counts references in an atomic narrower than the pointer width: " + ", ".join("Atomic" + x for x in narrow))
    return broken


def run(ctx, prop):
    gate = C.lean_gate(prop, ctx.tier)
    ctx.setup()
    oracle_fail, disagree, samples = [], [], []
    hist = {"runs": 0, "events": 0, "objects": 0, "calls": 0, "contended_calls": 0, "lend_concurrent_calls": 0, "clones": 0,
            "drops": 0, "sends": 0, "lends": 0, "max_threads": 0, "ifaces_scanned": 0, "arms_scanned": 0,
            "negative_control": None, "builds": []}
    quick = ctx.tier == "quick"
    configs = ([(2, 500, 2), (8, 400, 4), (16, 250, 4), (1, 300, 2), (4, 600, 3), (8, 300, 1)] if quick else
               [(2, 3000, 2), (8, 2000, 4), (16, 1500, 4), (32, 600, 4), (1, 2000, 2), (4, 3000, 3), (8, 2000, 1), (12, 1500, 6)] * 3)
    with C.Scratch() as tmp:
        variants = [("locked", True)] + ([] if quick else [("locked", False)])
        with concurrent.futures.ThreadPoolExecutor(4) as ex:
            futs = {(v, o): ex.submit(e5.build, os.path.join(tmp, f"b-{v}-{int(o)}"), ctx.idlc["debug"], opt=o, variant=v)
                    for v, o in variants + [("nolock", True)]}
            builds = {k: f.result() for k, f in futs.items()}
        for (v, o), b in builds.items():
            hist["builds"].append({"variant": v, "opt": o, "ok": b["ok"]})
        for (v, o) in variants:
            b = builds[(v, o)]
            if not b["ok"]:
                oracle_fail.append({"case": {"id": f"build-{v}"}, "failures": [{"error": "the stress program does not build against the generated code / runtime",
                                    "units": [{"unit": u["unit"], "stderr": u["stderr"][-600:]} for u in b["units"] if u["rc"] != 0]}]})
                continue
            for ci, (threads, ops, objects) in enumerate(configs):
                seed = ctx.seed * 1000 + ci
                r = e5.run(b, threads=threads, ops=ops, seed=seed, objects=objects, timeout=300)
                ctx.bump("evaluations")
                hist["runs"] += 1
                hist["max_threads"] = max(hist["max_threads"], threads)
                fails = []
                if r["rc"] != 0:
                    fails.append({"error": "stress program failed", "rc": r["rc"], "stderr": r["stderr"][-400:]})
                ref = ref_check(r["events"])
                for k in ("events", "calls", "contended_calls", "lend_concurrent_calls", "clones", "drops", "sends", "lends"):
                    hist[k] += ref["stats"].get(k, 0)
                if not ref["ok"]:
                    fails.append({"error": "reference checker (property clauses evaluated directly on the history)", "counts": ref["counts"], "first": ref["violations"][:4]})
                mf, nobj = validate(ctx, r["events"])
                hist["objects"] += nobj
                if mf and ref["ok"] and r["rc"] == 0:
                    disagree.append({"config": {"threads": threads, "ops": ops, "objects": objects, "seed": seed, "opt": o}, "model": mf[:2]})
                elif mf:
                    fails += mf[:3]
                if fails:
                    oracle_fail.append({"case": {"id": f"history threads={threads} ops={ops} objects={objects} seed={seed} opt={o}"}, "failures": fails[:5]})
                if len(samples) < 2:
                    samples.append({"threads": threads, "ops": ops, "objects": objects, "events": len(r["events"]), "stats": ref["stats"]})
        # negative control: the machinery must see a skeleton without the body lock
        nb = builds[("nolock", True)]
        if nb["ok"]:
            caught = 0
            for k in range(3):
                r = e5.run(nb, threads=8, ops=600, seed=ctx.seed * 77 + k, objects=2, timeout=300)
                mf, _ = validate(ctx, r["events"])
                if mf or not ref_check(r["events"])["ok"]:
                    caught += 1
            hist["negative_control"] = f"{caught}/3 runs of the lock-free patched skeleton rejected"
            if caught == 0:
                raise C.HarnessFault("negative control (skeleton without the body lock) was not detected: the stress level is too weak on this machine")
        else:
            hist["negative_control"] = "not built: " + "; ".join(u["stderr"][-120:] for u in nb["units"] if u["rc"] != 0)
    sf = scan_generated(ctx, 6 if quick else 60, hist)
    for f in sf:
        oracle_fail.append({"case": {"id": "generated-skeleton-scan"}, "failures": [f]})
    rb = scan_runtime()
    if rb:
        gate["broken"] = list(gate["broken"]) + ["correspondence of Conc.step fetchSub/clone with wrapper.rs: " + "; ".join(rb)]
    if hist["contended_calls"] == 0 and not oracle_fail:
        raise C.HarnessFault("no contention was produced: vacuous run")
    return finish(ctx, prop, gate, oracle_fail, disagree, samples, hist["objects"], hist,
                  rule="histories of the stress program (real generated Rust for ICounter / IPair : ICounter + /repo/tests/src/object runtime, 1-32 OS threads, "
                       "seeded scripts of clone / call / drop / send / scoped lend with concurrent use of one handle, all threads dropping their last "
                       "handles at the same time) are replayed by the Lean model (every observed event must be an enabled step; unobserved fetch_sub "
                       "steps placed by Conc.expand) and by an independent reference checker; the final state must be quiescent with exactly one "
                       "implementation drop; distinct = objects whose whole life was validated; interleavings are whatever the OS scheduler produced "
                       "(not enumerated); a patched skeleton without the body lock must be rejected (negative control)",
                  extra={"engines": ["E5 concurrency bench", "Lean Conc.replay", "reference checker", "generated-text scan"],
                         "not_modelled": "weak-memory reorderings (every model step is atomic and totally ordered), panics / mutex poisoning, re-entrant calls, "
                                         "implementations that are not Send (the generated From<T> does not require it: see DESIGN.md)"})
