"""The 15-per-class bound as a shared input family: methods whose argument counts exceed what
the counts word can carry must be refused by the compiler in every mode — whichever backend
flags are given, whether the method is declared in the compiled file or inherited from an
included ancestor, whether the objects are direct, array elements or struct fields. A method
that is accepted beyond the bound is emitted with a wrapped counts word: skeletons then serve
malformed envelopes (C04), counters wrap differently in debug and release (C16), the envelope
is not canonical (C02)."""
import os

from bench import idl
from . import common as C
from . import engines as E


def P(d, t, a, n):
    return {"dir": d, "type": t, "arr": a, "name": n}


EXTRA_STRUCTS = [
    {"k": "struct", "name": "OP8", "fields": [{"type": "interface", "count": 1, "name": f"o{i}"} for i in range(8)]},
    {"k": "struct", "name": "OP2", "fields": [{"type": "interface", "count": 1, "name": "first"},
                                              {"type": "interface", "count": 1, "name": "second"},
                                              {"type": "uint64", "count": 4, "name": "pad"}]},
]


def extra_lists():
    """parameter lists around the bound that combine two ways of contributing to one class"""
    out = []
    for d, od in (("in", "out"), ("out", "in")):
        # objects embedded in a struct parameter plus an object array of the same direction
        for n in (13, 14):
            out.append([P(d, "OP2", None, "p"), P(d, "IT", n, "rest")])
            out.append([P(d, "IT", n, "rest"), P(d, "OP2", None, "p")])
            out.append([P(d, "OB", None, "p"), P(d, "interface", n + 1, "rest")])
        # the same object-bearing struct type twice (8 + 8 objects), and once with other objects
        out.append([P(d, "OP8", None, "left"), P(d, "OP8", None, "right")])
        out.append([P(d, "OP8", None, "left"), P(d, "interface", None, "a"), P(d, "OP8", None, "right")])
        out.append([P(d, "OP8", None, "left"), P(d, "OP2", None, "mid"), P(d, "interface", None, "a")])
        # 15 buffers plus small values of the same direction and none of the other
        for small in (("uint32", None), ("S4", None), ("uint8", None)):
            out.append([P(d, small[0], small[1], "status")] + [P(d, "uint8", "unbounded", f"b{i}") for i in range(15)])
            out.append([P(d, "uint8", "unbounded", f"b{i}") for i in range(15)] + [P(d, small[0], small[1], "status"), P(d, "uint16", None, "more")])
            out.append([P(od, small[0], small[1], "status")] + [P(d, "uint8", "unbounded", f"b{i}") for i in range(15)])
    return out


def one_method(params):
    from .props.c02 import PRELUDE
    nodes = [dict(n) for n in PRELUDE] + [dict(n) for n in EXTRA_STRUCTS] + [{"k": "interface", "name": "IB", "base": None, "members": [
        {"k": "method", "name": "mb", "optional": False, "doc": None, "params": params}]}]
    return {"id": "bound", "files": [{"path": "main.idl", "nodes": nodes}], "main": "main.idl", "incdirs": []}


def inherited_cases(ns=(15, 16, 17), wide_extra=()):
    """a derived interface re-emits the methods of its ancestors with their counts, wherever the
    ancestor is declared"""
    out = []
    for n in tuple(ns) + tuple(wide_extra):
        for d in ("in", "out"):
            for place in ("same-file", "included", "included-twice-removed"):
                wide = {"k": "method", "name": "wide", "optional": False, "doc": None,
                        "params": [P(d, "buffer", None, f"b{i}") for i in range(n)] + [P("out" if d == "in" else "in", "uint32", None, "x")]}
                root_i = {"k": "interface", "name": "IRootB", "base": None, "members": [wide]}
                mid_i = {"k": "interface", "name": "IMidB", "base": "IRootB", "members": []}
                leaf_i = {"k": "interface", "name": "ILeafB", "base": "IMidB", "members": [
                    {"k": "method", "name": "own", "optional": False, "doc": None, "params": []}]}
                if place == "same-file":
                    files = [{"path": "main.idl", "nodes": [root_i, mid_i, leaf_i]}]
                elif place == "included":
                    files = [{"path": "main.idl", "nodes": [{"k": "include", "path": "base.idl"}, leaf_i]},
                             {"path": "base.idl", "nodes": [root_i, mid_i]}]
                else:
                    files = [{"path": "main.idl", "nodes": [{"k": "include", "path": "mid.idl"}, leaf_i]},
                             {"path": "mid.idl", "nodes": [{"k": "include", "path": "root.idl"}, mid_i]},
                             {"path": "root.idl", "nodes": [root_i]}]
                out.append(({"id": f"bound-inherited-{n}-{d}-{place}", "files": files, "main": "main.idl", "incdirs": []}, n <= 15))
    return out


MODES = ("c", "c-skel", "cpp", "cpp-skel", "rust")


def must_refuse_family(ctx, fails, profiles=("debug",), modes=MODES, label="bound"):
    """the over-limit members of the family, in every backend mode: each must be refused
    (and, with several profiles, by each build alike). Returns the number of runs."""
    from .props.c02 import mink_counts
    runs = 0
    lists = []
    for n in (16, 17, 256):
        lists.append([P("in", "buffer", None, f"b{i}") for i in range(n)])
        lists.append([P("out", "uint16", "unbounded", f"b{i}") for i in range(n)])
    lists.append([P("in", "interface", 16, "oa")])
    lists.append([P("out", "IT", 16, "oa"), P("in", "uint32", None, "x")])
    lists += extra_lists()
    cases = []
    for params in lists:
        case = one_method(params)
        exp = mink_counts(case, case["files"][0]["nodes"][-1]["members"][0])
        if max(exp) > 15:
            cases.append((case, f"counts {exp}"))
    for case, ok in inherited_cases(ns=(16, 17), wide_extra=(256,)):
        if not ok:
            cases.append((case, case["id"]))
    for case, what in cases:
        with C.Scratch() as tmp:
            root = os.path.join(tmp, "src")
            idl.render_case(case, root)
            for mode in modes:
                for prof in profiles:
                    out = os.path.join(tmp, f"o-{mode}-{prof}")
                    if mode in ("rust", "java"):
                        os.makedirs(out, exist_ok=True)
                    rc, err = E.run_idlc(ctx, root, "main.idl", [], mode, out, profile=prof)
                    runs += 1
                    if rc == 0:
                        fails.append({"case": {"id": label, "what": what, "backend": mode, "profile": prof,
                                               "idl": idl.render_file(case["files"][0])[-400:]},
                                      "failures": [{"kind": "bound", "error": "a method that needs more than 15 arguments of one class was accepted "
                                                    "and emitted (the counts word cannot carry it)", "cli_exit": rc}]})
    return runs
