"""Extraction of emitted numbers (op-codes, error values, counts words) from the text that
the real compiler generated, per backend.  These are the `Numbers` of DESIGN.md 2.1."""
import re


def c_defines(text):
    """{macro: body} for one-line #defines"""
    out = {}
    for m in re.finditer(r"^#define\s+(\w+)\s+(.+?)\s*$", text, re.M):
        out[m.group(1)] = m.group(2)
    return out


def c_int(body):
    m = re.fullmatch(r"(?:U?INT\d+_C)?\(?\s*(-?(?:0x[0-9a-fA-F]+|\d+))\s*\)?", body.strip())
    if not m:
        return None
    lit = m.group(1)
    # the value as the C compiler reads it: a leading zero makes the literal octal (and digits 8
    # and 9 make it no number at all: reported as a value no declaration can have)
    neg = lit.startswith("-")
    body_ = lit.lstrip("-")
    if len(body_) > 1 and body_[0] == "0" and body_[1] not in "xX":
        try:
            v = int(body_, 8)
        except ValueError:
            return -(10 ** 12)
        return -v if neg else v
    return int(lit, 0)


def c_ops(text):
    """{(iface, method): id} from `#define I_OP_m n` of a C stub header"""
    out = {}
    for k, v in c_defines(text).items():
        m = re.fullmatch(r"(\w+?)_OP_(\w+)", k)
        if m and c_int(v) is not None:
            out[(m.group(1), m.group(2))] = c_int(v)
    return out


def c_errors(text, iface_names):
    """{(iface, error): value}: `#define I_E INT32_C(n)`; iface names are needed to split"""
    out = {}
    for k, v in c_defines(text).items():
        if "_OP_" in k or not v.startswith("INT32_C("):
            continue
        for i in sorted(iface_names, key=len, reverse=True):
            if k.startswith(i + "_"):
                out[(i, k[len(i) + 1:])] = c_int(v)
                break
    return out


def c_skel_cases(text):
    """{iface: [case labels]} of the dispatch switch of `I_DEFINE_INVOKE`"""
    out = {}
    for m in re.finditer(r"#define (\w+)_DEFINE_INVOKE\(func, prefix, type\)(.*?)(?=#define \w+_DEFINE_INVOKE|\Z)", text, re.S):
        out[m.group(1)] = re.findall(r"case (\w+): \{", m.group(2))
    return out


def cpp_classes(text):
    """{class name: body text} for the top-level classes"""
    out = {}
    for m in re.finditer(r"^class (\w+)\b[^;{]*\{(.*?)^\};", text, re.S | re.M):
        out[m.group(1)] = m.group(2)
    return out


def cpp_ops(text):
    out = {}
    for cname, body in cpp_classes(text).items():
        if not cname.startswith("I"):
            continue
        for m in re.finditer(r"static const ObjectOp OP_(\w+) = (\d+);", body):
            out[(cname[1:], m.group(1))] = int(m.group(2))
    return out


def cpp_errors(text):
    out = {}
    for cname, body in cpp_classes(text).items():
        for m in re.finditer(r"static const int32_t (\w+) = INT32_C\((-?\d+)\);", body):
            out[(cname[1:], m.group(1))] = int(m.group(2))
    return out


def cpp_skel_cases(text):
    out = {}
    for cname, body in cpp_classes(text).items():
        if cname.endswith("ImplBase"):
            out[cname[:-len("ImplBase")]] = re.findall(r"case OP_(\w+): \{", body)
    return out


def rust_stub_ops(text):
    """{method: id} of the stub methods defined in this file: `pub fn r#m(&self` … `.invoke(n,`"""
    out = {}
    for m in re.finditer(r"pub fn r#(\w+)\(\s*&self.*?\.invoke\(\s*(\d+)\s*,", text, re.S):
        out[m.group(1)] = int(m.group(2))
    return out


def rust_skel_arms(text):
    """{id: method} of the match arms of the generated `invoke`"""
    out = {}
    m = re.search(r"unsafe extern \"C\" fn invoke\((.*)", text, re.S)
    if not m:
        return out
    body = m.group(1)
    arms = list(re.finditer(r"^        (\d+) => \{", body, re.M))
    for i, a in enumerate(arms):
        end = arms[i + 1].start() if i + 1 < len(arms) else len(body)
        seg = body[a.end():end]
        c = re.search(r"cx\s*\.r#(\w+)\(", seg)
        if c:
            out[int(a.group(1))] = c.group(1)
    return out


def rust_errors(text):
    return {m.group(1): int(m.group(2)) for m in
            re.finditer(r"pub const (\w+): Error = Error\(unsafe \{\s*crate::object::Error::new_unchecked\((-?\d+)\)\s*\}\);", text)}


def java_ints(text):
    return {m.group(1): int(m.group(2)) for m in re.finditer(r"^\s*int (\w+) = (-?\d+);", text, re.M)}


def pack_words(text):
    """all `ObjectCounts_pack(a, b, c, d)` / `pack_counts(a, b, c, d)` argument tuples, in order"""
    return [tuple(int(x) for x in m.groups()) for m in
            re.finditer(r"(?:ObjectCounts_pack|pack_counts)\((\d+),\s*(\d+),\s*(\d+),\s*(\d+)\)", text)]
