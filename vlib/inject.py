"""The malformed stream: take a valid case and introduce exactly ONE violation of ONE documented
restriction at a random position.  Every injector returns (case, label) or None when the case
offers no place for it.  label = {"rule":…, "where":…, plus context used by the classifiers}."""
import copy

from bench import idl

IFACE_RULES = {"dup-method", "dup-const-error", "unbounded-objarr", "objarr-plus-obj", "two-objarr",
               "objstruct-array", "bounded-data-array"}


def _files_with(case, kind):
    out = []
    cl = set(closure(case))
    for fi, f in enumerate(case["files"]):
        if fi not in cl:
            continue
        for ni, n in enumerate(f["nodes"]):
            if n["k"] == kind:
                out.append((fi, ni))
    return out


def closure(case):
    """indices of the files in the include closure of the main file (include strings are
    matched by normalised path relative to the includer, or by bare name)"""
    import os
    by_path = {os.path.normpath(f["path"]): i for i, f in enumerate(case["files"])}
    by_base = {}
    for p, i in by_path.items():
        by_base.setdefault(os.path.basename(p), i)
    main = by_path[os.path.normpath(case["main"])]
    seen, todo = set(), [main]
    while todo:
        i = todo.pop()
        if i in seen:
            continue
        seen.add(i)
        f = case["files"][i]
        for n in f["nodes"]:
            if n["k"] != "include":
                continue
            s = n["path"]
            if os.path.dirname(s):
                t = by_path.get(os.path.normpath(os.path.join(os.path.dirname(f["path"]), s)))
            else:
                t = by_base.get(s)
            if t is not None:
                todo.append(t)
    return sorted(seen)


def _pick_file(case, rng):
    return rng.choice(closure(case))


def _after_includes(f):
    k = 0
    while k < len(f["nodes"]) and f["nodes"][k]["k"] == "include":
        k += 1
    return k


def _ctx(case, fi):
    return "main" if case["files"][fi]["path"] == case["main"] else "included"


def _reachable_structs(case):
    """struct names reachable (through field types) from structs declared in the main file:
    exactly what cycles.rs builds its graph from"""
    st = idl.struct_table(case)
    main = next(f for f in case["files"] if f["path"] == case["main"])
    seen = set()
    todo = [n["name"] for n in main["nodes"] if n["k"] == "struct"]
    while todo:
        s = todo.pop()
        if s in seen or s not in st:
            continue
        seen.add(s)
        for f in st[s]["fields"]:
            if f["type"] in st:
                todo.append(f["type"])
    return seen


def _main_chain_ifaces(case):
    """interfaces that are a main-file interface or one of its ancestors: what the interface
    verifier and the MIR ever look at"""
    main = next(f for f in case["files"] if f["path"] == case["main"])
    out = set()
    for n in main["nodes"]:
        if n["k"] == "interface":
            for lvl in idl.chain(case, n["name"]):
                out.add(lvl["name"])
    return out


def _pick_iface(case, rng, need_method=False):
    cands = []
    for fi, ni in _files_with(case, "interface"):
        n = case["files"][fi]["nodes"][ni]
        if need_method and not any(m["k"] == "method" for m in n["members"]):
            continue
        cands.append((fi, ni))
    return rng.choice(cands) if cands else None


def _iface_label(case, fi, node, rule, **kw):
    lab = {"rule": rule, "where": _ctx(case, fi), "iface": node["name"],
           "in_main_chain": node["name"] in _main_chain_ifaces(case)}
    lab.update(kw)
    return lab


def _new_method(name, params):
    return {"k": "method", "name": name, "optional": False, "doc": None, "params": params}


def inj_dup_param(case, rng):
    c = copy.deepcopy(case)
    pick = _pick_iface(c, rng)
    if not pick:
        return None
    fi, ni = pick
    n = c["files"][fi]["nodes"][ni]
    n["members"].append(_new_method("zdup", [{"dir": "in", "type": "uint32", "arr": None, "name": "same"},
                                              {"dir": rng.choice(["in", "out"]), "type": "uint8", "arr": None, "name": "same"}]))
    return c, _iface_label(c, fi, n, "dup-param")


def inj_dup_field(case, rng):
    c = copy.deepcopy(case)
    fi = _pick_file(c, rng)
    s = {"k": "struct", "name": "ZDupF", "fields": [{"type": "uint32", "count": 1, "name": "x"},
                                                    {"type": "uint32", "count": 1, "name": "x"}]}
    c["files"][fi]["nodes"].append(s)
    return c, {"rule": "dup-field", "where": _ctx(c, fi), "struct": "ZDupF",
               "reachable": _ctx(c, fi) == "main"}


def inj_dup_method(case, rng):
    c = copy.deepcopy(case)
    pick = _pick_iface(c, rng, need_method=True)
    if not pick:
        return None
    fi, ni = pick
    n = c["files"][fi]["nodes"][ni]
    # duplicate one of the methods of the flattened interface (own or inherited)
    flat = idl.flat_methods(c, n["name"])
    owner, m, _ = rng.choice(flat)
    n["members"].append(_new_method(m["name"], []))
    return c, _iface_label(c, fi, n, "dup-method", inherited=owner != n["name"])


def inj_dup_const_error(case, rng):
    c = copy.deepcopy(case)
    pick = _pick_iface(c, rng)
    if not pick:
        return None
    fi, ni = pick
    n = c["files"][fi]["nodes"][ni]
    names = [(lvl["name"], m["name"]) for lvl in idl.chain(c, n["name"]) for m in lvl["members"] if m["k"] in ("const", "error")]
    if names and rng.random() < 0.7:
        owner, nm = rng.choice(names)
    else:
        owner, nm = n["name"], "ZCE"
        n["members"].append({"k": "error", "name": nm})
    if rng.random() < 0.5:
        n["members"].append({"k": "error", "name": nm})
    else:
        n["members"].append({"k": "const", "type": "uint8", "name": nm, "value": "1"})
    return c, _iface_label(c, fi, n, "dup-const-error", inherited=owner != n["name"])


def inj_dup_toplevel(case, rng):
    c = copy.deepcopy(case)
    kinds = rng.choice([("struct", "struct"), ("struct", "interface"), ("interface", "struct"),
                        ("interface", "interface"), ("const", "const")])
    name = "ZTop"
    mk = {
        "struct": lambda: {"k": "struct", "name": name, "fields": [{"type": "uint8", "count": 1, "name": "a"}]},
        "interface": lambda: {"k": "interface", "name": name, "base": None, "members": []},
        "const": lambda: {"k": "const", "type": "uint8", "name": name, "value": "1"},
    }
    f1 = _pick_file(c, rng)
    f2 = _pick_file(c, rng)
    c["files"][f1]["nodes"].append(mk[kinds[0]]())
    c["files"][f2]["nodes"].append(mk[kinds[1]]())
    return c, {"rule": "dup-toplevel", "kinds": list(kinds), "where": _ctx(c, f1) + "+" + _ctx(c, f2)}


def inj_cross_kind(case, rng):
    """a constant and a struct/interface sharing one name (separate namespaces in the store)"""
    c = copy.deepcopy(case)
    other = rng.choice(["struct", "interface"])
    f1 = _pick_file(c, rng)
    f2 = _pick_file(c, rng)
    c["files"][f1]["nodes"].append({"k": "const", "type": "uint8", "name": "ZX", "value": "1"})
    c["files"][f2]["nodes"].append({"k": "struct", "name": "ZX", "fields": [{"type": "uint8", "count": 1, "name": "a"}]}
                                   if other == "struct" else {"k": "interface", "name": "ZX", "base": None, "members": []})
    return c, {"rule": "dup-toplevel-crosskind", "other": other, "where": _ctx(c, f1) + "+" + _ctx(c, f2)}


def inj_undefined_type(case, rng):
    c = copy.deepcopy(case)
    if rng.random() < 0.5:
        pick = _pick_iface(c, rng)
        if not pick:
            return None
        fi, ni = pick
        n = c["files"][fi]["nodes"][ni]
        n["members"].append(_new_method("zundef", [{"dir": rng.choice(["in", "out"]), "type": "NoSuchType", "arr": None, "name": "x"}]))
        return c, _iface_label(c, fi, n, "undefined-param-type")
    fi = _pick_file(c, rng)
    c["files"][fi]["nodes"].append({"k": "struct", "name": "ZUndef", "fields": [{"type": "NoSuchType", "count": 1, "name": "a"}]})
    return c, {"rule": "undefined-field-type", "where": _ctx(c, fi), "reachable": _ctx(c, fi) == "main"}


def inj_undefined_base(case, rng):
    c = copy.deepcopy(case)
    fi = _pick_file(c, rng)
    n = {"k": "interface", "name": "ZNoBase", "base": "NoSuchBase", "members": []}
    c["files"][fi]["nodes"].append(n)
    return c, {"rule": "undefined-base", "where": _ctx(c, fi), "in_main_chain": _ctx(c, fi) == "main"}


def inj_misaligned(case, rng):
    c = copy.deepcopy(case)
    fi = _pick_file(c, rng)
    variant = rng.choice(["member", "total", "nested", "object", "random", "random", "interior", "interior"])
    if variant == "random":
        # any field list whose natural layout differs from the packed one (interior or tail padding,
        # wherever it sits relative to larger members)
        sizes = {"uint8": 1, "int8": 1, "uint16": 2, "int16": 2, "uint32": 4, "int32": 4, "float32": 4, "uint64": 8, "int64": 8, "float64": 8}
        while True:
            fields = [{"type": rng.choice(sorted(sizes)), "count": rng.choice([1, 1, 1, 2, 3]), "name": f"r{q}"} for q in range(rng.randint(2, 6))]
            off, bad, mx = 0, False, 1
            for f in fields:
                a = sizes[f["type"]]
                mx = max(mx, a)
                if off % a:
                    bad = True
                off += a * f["count"]
            if bad or off % mx:
                break
    elif variant == "interior":
        # a member misaligned although a LARGER member precedes it; total size stays a multiple
        # of the largest alignment (only the per-member offset rule can refuse this)
        big = rng.choice([("uint32", 4), ("uint64", 8), ("float64", 8)])
        mid = rng.choice([("uint16", 2), ("int16", 2)] + ([("uint32", 4)] if big[1] == 8 else []))
        fields = [{"type": big[0], "count": 1, "name": "a"}, {"type": "uint8", "count": 1, "name": "b"},
                  {"type": mid[0], "count": 1, "name": "c"}]
        tot = big[1] + 1 + mid[1]
        k = 0
        while tot % big[1]:
            fields.append({"type": "uint8", "count": 1, "name": f"p{k}"})
            tot += 1
            k += 1
    elif variant == "member":
        fields = [{"type": "uint8", "count": 1, "name": "a"}, {"type": rng.choice(["uint16", "uint32", "uint64", "float64"]), "count": 1, "name": "b"}]
    elif variant == "total":
        fields = [{"type": rng.choice(["uint32", "uint64"]), "count": 1, "name": "a"}, {"type": "uint8", "count": rng.choice([1, 2, 3]), "name": "b"}]
    elif variant == "object":
        fields = [{"type": "uint64", "count": 1, "name": "a"}, {"type": "interface", "count": 1, "name": "o"}]
    else:
        c["files"][fi]["nodes"].append({"k": "struct", "name": "ZInner", "fields": [{"type": "uint64", "count": 1, "name": "a"}]})
        fields = [{"type": "uint32", "count": 1, "name": "a"}, {"type": "ZInner", "count": 1, "name": "b"}]
    c["files"][fi]["nodes"].append({"k": "struct", "name": "ZMis", "fields": fields})
    used = False
    if rng.random() < 0.5:
        # use it as a parameter type of a main-file interface (still not "reachable" for the
        # struct passes, which start from main-file *structs* only)
        main = next(f for f in c["files"] if f["path"] == c["main"])
        ifs = [n for n in main["nodes"] if n["k"] == "interface"]
        vis = _visible_from_main(c, fi)
        if ifs and vis:
            rng.choice(ifs)["members"].append(_new_method("zusemis", [{"dir": "in", "type": "ZMis", "arr": None, "name": "x"}]))
            used = True
    return c, {"rule": "misaligned-struct", "variant": variant, "where": _ctx(c, fi),
               "reachable": _ctx(c, fi) == "main", "used_as_param": used}


def _visible_from_main(case, fi):
    """is file fi in the include closure of the main file (by the generator's construction
    every file is)"""
    return True


def inj_struct_cycle(case, rng):
    c = copy.deepcopy(case)
    fi = _pick_file(c, rng)
    r = rng.random()
    if r < 0.3:
        nodes = [{"k": "struct", "name": "ZCyc", "fields": [{"type": "uint64", "count": 1, "name": "a"}, {"type": "ZCyc", "count": 1, "name": "b"}]}]
    elif r < 0.65:
        # a cycle that is reachable from, but does not contain, the first struct (rho shape),
        # with a tail of random length and a loop of length 1..3, declared in random order
        tail, loop = rng.randint(1, 3), rng.randint(1, 3)
        names = [f"ZT{i}" for i in range(tail)] + [f"ZL{i}" for i in range(loop)]
        nodes = []
        for i, nm in enumerate(names):
            nxt = names[i + 1] if i + 1 < len(names) else names[tail]
            nodes.append({"k": "struct", "name": nm, "fields": [{"type": "uint64", "count": 1, "name": "a"}, {"type": nxt, "count": 1, "name": "n"}]})
        if rng.random() < 0.5:
            rng.shuffle(nodes)
    else:
        nodes = [{"k": "struct", "name": "ZCyc", "fields": [{"type": "ZCyc2", "count": 1, "name": "a"}]},
                 {"k": "struct", "name": "ZCyc2", "fields": [{"type": "ZCyc", "count": 1, "name": "a"}]}]
    c["files"][fi]["nodes"] += nodes
    return c, {"rule": "struct-cycle", "where": _ctx(c, fi), "reachable": _ctx(c, fi) == "main", "used_as_param": False}


def inj_iface_cycle(case, rng):
    c = copy.deepcopy(case)
    fi = _pick_file(c, rng)
    if rng.random() < 0.4:
        nodes = [{"k": "interface", "name": "ZICyc", "base": "ZICyc", "members": []}]
    else:
        nodes = [{"k": "interface", "name": "ZICyc", "base": "ZICyc2", "members": []},
                 {"k": "interface", "name": "ZICyc2", "base": "ZICyc", "members": []}]
    c["files"][fi]["nodes"] += nodes
    return c, {"rule": "iface-cycle", "where": _ctx(c, fi), "in_main_chain": _ctx(c, fi) == "main"}


def inj_include_cycle(case, rng):
    c = copy.deepcopy(case)
    fi = _pick_file(c, rng)
    f = c["files"][fi]
    import os
    if rng.random() < 0.4 or len(c["files"]) == 1:
        target = f["path"]                      # self include
    else:
        target = c["main"]                      # back edge to the root
    relp = os.path.relpath(target, os.path.dirname(f["path"]) or ".")
    if os.path.dirname(relp) == "":
        relp = "./" + relp
    f["nodes"].insert(0, {"k": "include", "path": relp})   # includes come first: still grammatical
    return c, {"rule": "include-cycle", "where": _ctx(c, fi)}


def inj_const_range(case, rng):
    c = copy.deepcopy(case)
    # one step outside the range of a random integer type, in a random spelling (decimal, hex,
    # negative hex; also a hex spelling whose digits read as decimal would be IN range)
    bits = rng.choice([8, 16, 32, 64])
    signed = rng.random() < 0.5
    t = ("int" if signed else "uint") + str(bits)
    hi = (1 << (bits - 1)) - 1 if signed else (1 << bits) - 1
    lo = -(1 << (bits - 1)) if signed else 0
    above = hi + rng.choice([1, 1, 2, 0x10, hi // 3 + 1])
    below = lo - rng.choice([1, 1, 2, 0x11, (hi // 5) + 1])
    v = rng.choice([str(above), str(below), hex(above), "-" + hex(-below), "-0x" + format(-below, "X"), "0x" + format(above, "X")])
    fi = _pick_file(c, rng)
    node = {"k": "const", "type": t, "name": "ZRange", "value": v}
    if rng.random() < 0.5 and _files_with(c, "interface"):
        fi, ni = rng.choice(_files_with(c, "interface"))
        c["files"][fi]["nodes"][ni]["members"].append(node)
        scope = "interface"
    else:
        c["files"][fi]["nodes"].append(node)
        scope = "file"
    return c, {"rule": "const-range", "type": t, "value": v, "where": _ctx(c, fi), "scope": scope}


def _objrule(case, rng, rule, params):
    c = copy.deepcopy(case)
    pick = _pick_iface(c, rng)
    if not pick:
        return None
    fi, ni = pick
    n = c["files"][fi]["nodes"][ni]
    extra = rng.choice([[], [{"dir": "in", "type": "uint32", "arr": None, "name": "pad1"}],
                        [{"dir": "out", "type": "buffer", "arr": None, "name": "pad2"}]])
    n["members"].insert(rng.randint(0, len(n["members"])), _new_method("zobj", extra + params))
    return c, fi, n


def inj_unbounded_objarr(case, rng):
    d = rng.choice(["in", "out"])
    # only a *named* interface can be written with `[]` (the grammar rejects `interface[]`)
    ifs = list(idl.iface_table(case))
    if not ifs:
        return None
    r = _objrule(case, rng, "unbounded-objarr", [{"dir": d, "type": rng.choice(ifs), "arr": "unbounded", "name": "oa"}])
    if not r:
        return None
    c, fi, n = r
    return c, _iface_label(c, fi, n, "unbounded-objarr", dir=d)


def inj_objarr_plus_obj(case, rng):
    d = rng.choice(["in", "out"])
    ps = [{"dir": d, "type": "interface", "arr": rng.choice([1, 2, 3]), "name": "oa"},
          {"dir": d, "type": "interface", "arr": None, "name": "ob"}]
    rng.shuffle(ps)
    r = _objrule(case, rng, "objarr-plus-obj", ps)
    if not r:
        return None
    c, fi, n = r
    return c, _iface_label(c, fi, n, "objarr-plus-obj", dir=d)


def inj_two_objarr(case, rng):
    d = rng.choice(["in", "out"])
    ps = [{"dir": d, "type": "interface", "arr": rng.choice([1, 1, 2, 3, 15]), "name": "oa"},
          {"dir": d, "type": "interface", "arr": rng.choice([1, 1, 2, 3]), "name": "ob"}]
    if rng.random() < 0.4:
        ps.insert(1, {"dir": rng.choice(["in", "out"]), "type": "uint32", "arr": None, "name": "between"})
    r = _objrule(case, rng, "two-objarr", ps)
    if not r:
        return None
    c, fi, n = r
    return c, _iface_label(c, fi, n, "two-objarr", dir=d)


def inj_objstruct_array(case, rng):
    d = rng.choice(["in", "out"])
    small = rng.random() < 0.5
    c = copy.deepcopy(case)
    sname = "ZOS"
    fields = [{"type": "interface", "count": 1, "name": "o"}] if small else \
        [{"type": "interface", "count": 1, "name": "o"}, {"type": "uint64", "count": 2, "name": "a"}]
    nested = rng.random() < 0.3
    main = next(f for f in c["files"] if f["path"] == c["main"])
    at = _after_includes(main)
    main["nodes"].insert(at, {"k": "struct", "name": sname, "fields": fields})
    tname = sname
    if nested:
        main["nodes"].insert(at + 1, {"k": "struct", "name": "ZOS2", "fields": [{"type": sname, "count": 1, "name": "inner"}]})
        tname = "ZOS2"
    pick = [(fi, ni) for fi, ni in _files_with(c, "interface") if c["files"][fi]["path"] == c["main"]]
    if not pick:
        return None
    fi, ni = rng.choice(pick)
    n = c["files"][fi]["nodes"][ni]
    n["members"].append(_new_method("zosarr", [{"dir": d, "type": tname, "arr": "unbounded", "name": "xs"}]))
    return c, _iface_label(c, fi, n, "objstruct-array", dir=d, small=small, nested=nested)


def inj_bounded_data_array(case, rng):
    d = rng.choice(["in", "out"])
    t = rng.choice(["uint8", "uint32", "float64"])
    r = _objrule(case, rng, "bounded-data-array", [{"dir": d, "type": t, "arr": rng.choice([1, 4, 16]), "name": "xs"}])
    if not r:
        return None
    c, fi, n = r
    return c, _iface_label(c, fi, n, "bounded-data-array", dir=d)


def inj_repeated_attr(case, rng):
    c = copy.deepcopy(case)
    pick = _pick_iface(c, rng)
    if not pick:
        return None
    fi, ni = pick
    n = c["files"][fi]["nodes"][ni]
    # rendered through a raw member: two #[optional] attributes
    n["members"].append({"k": "rawmember", "text": "  #[optional]\n  #[optional]\n  method zattr();\n"})
    return c, _iface_label(c, fi, n, "repeated-attribute")


def inj_grammar(case, rng):
    c = copy.deepcopy(case)
    fi = _pick_file(c, rng)
    bad = rng.choice(["struct { uint8 a; };\n", "interface I {\n  method (in uint8 x);\n};\n", "const uint8 = 1;\n",
                      "struct ZE {\n};\n", "interface ZQ {\n  method m(inout uint8 x);\n};\n", "struct ZP { uint8 a };\n",
                      "interface ZR { method m(in uint8[] [] x); };\n", "const uint128 K = 1;\n", "@\n"])
    c["files"][fi]["nodes"].append({"k": "raw", "text": bad})
    return c, {"rule": "grammar", "where": _ctx(c, fi), "text": bad}


INJECTORS = [inj_dup_param, inj_dup_field, inj_dup_method, inj_dup_const_error, inj_dup_toplevel, inj_cross_kind,
             inj_undefined_type, inj_undefined_base, inj_misaligned, inj_struct_cycle, inj_iface_cycle,
             inj_include_cycle, inj_const_range, inj_unbounded_objarr, inj_objarr_plus_obj, inj_two_objarr,
             inj_objstruct_array, inj_bounded_data_array, inj_repeated_attr, inj_grammar]
