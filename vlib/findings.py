"""Known findings: /verif/known_findings.jsonl (committed, never written at run time), the
classifier predicates (decidable, over the input), and the witness cases that every run
re-confirms on the real code."""
import json
import os

from bench import idl
from . import common as C


def load(prop):
    return C.known_findings(prop)


def _kinds(case, m, d=None):
    return [idl.param_kind(case, p) for p in m["params"] if d is None or p["dir"] == d]


def _obj_struct_params(case, m, small):
    out = []
    for p in m["params"]:
        k = idl.param_kind(case, p)
        if k == ("small" if small else "big") and idl.struct_has_objects(case, p["type"]):
            out.append(p)
    return out


# classifier name -> predicate(case, method)
CLASSIFIERS = {
    # `in` object array together with a non-array `out` object
    "ooBeforeOi": lambda case, m: "objarr" in _kinds(case, m, "in") and "obj" in _kinds(case, m, "out"),
    # object-bearing struct (> 16 bytes) passed by value
    "embeddedObjOrder": lambda case, m: bool(_obj_struct_params(case, m, small=False)),
    # object-bearing struct of <= 16 bytes passed by value
    "smallObjStruct": lambda case, m: bool(_obj_struct_params(case, m, small=True)),
    # some class needs more than 15 arguments
    "countOver15": lambda case, m: True,
}

# which oracle failure kinds a finding explains, and an extra condition on the failure record
def _order_only(f):
    s = f.get("c_stub_slots")
    return s is not None and tuple(s.count(k) for k in range(4)) == tuple(f["expected_counts"])


EXPLAINS = {
    "ooBeforeOi": {"sections": _order_only},
    "embeddedObjOrder": {"sections": _order_only},
    "smallObjStruct": {"sections": lambda f: True, "counts": lambda f: True},
    "countOver15": {"bound": lambda f: True},
}


def classify(prop, case, method, fails):
    """split the oracle failures of one method into those explained by a listed known
    finding (classifier matches and the symptom is the recorded one) and the rest"""
    listed = load(prop)
    known, unexplained = [], []
    for f in fails:
        hit = None
        for k in listed:
            cl = k["classifier"]
            if CLASSIFIERS[cl](case, method) and f["kind"] in EXPLAINS[cl] and EXPLAINS[cl][f["kind"]](f):
                hit = k["id"]
                break
        if hit:
            known.append(hit)
        else:
            unexplained.append(f)
    return {"known": known, "unexplained": unexplained}


def witness_cases(prop):
    out = []
    for k in load(prop):
        w = k.get("witness_case")
        if w:
            out.append(json.load(open(os.path.join(C.VERIF, w))))
    return out
