"""Engines E1 (facts: probe vs Lean driver) and E4 (the real idlc binary on file trees)."""
import os
import random
import subprocess
import time

from bench import idl
from . import common as C


class Ctx:
    def __init__(self, prop, tier, seed):
        self.prop, self.tier, self.seed = prop, tier, seed
        self.rng = random.Random(f"{prop}/{seed}")
        self.t0 = time.time()
        self.probe = None
        self.driver = None
        self.idlc = {}
        self.stats = {}

    def setup(self, profiles=("debug",)):
        C.build_probe()
        for p in profiles:
            self.idlc[p] = C.build_idlc(p)
        self.probe = C.probe_client()
        self.driver = C.driver_client()

    def close(self):
        for c in (self.probe, self.driver):
            if c:
                c.close()

    def bump(self, key, n=1):
        self.stats[key] = self.stats.get(key, 0) + n


def e1(ctx, case, root, entry="cli", ub=False):
    """facts of the real pipeline (probe, staged replay) and of the model for one case that
    has been materialised under root"""
    inc = " ".join(case.get("incdirs", []))
    impl = ctx.probe.ask(f"facts {entry} {1 if ub else 0} {root} {case['main']} {inc}".strip())
    model = ctx.driver.ask(f"facts {entry + ('-ub' if ub and entry == 'cli' else '')} " + idl.case_tokens(case))
    return C.canon_facts(model), C.canon_facts(impl)


def verdict_of(facts):
    for l in facts:
        if l.startswith("verdict "):
            return l.split()[1]
        if l.startswith("crash"):
            return "crash"
        if l.startswith("bad-request"):
            return "bad-request"
    return "none"


def lines_with(facts, *prefixes):
    return [l for l in facts if l.split(" ", 1)[0] in prefixes]


BACKENDS = {
    "c": [], "c-skel": ["--skel"], "cpp": ["--cpp"], "cpp-skel": ["--cpp", "--skel"],
    "rust": ["--rust"], "java": ["--java"],
}


def run_idlc(ctx, root, main_rel, incdirs, backend, outpath, extra=(), profile="debug", timeout=60, cwd=None):
    cmd = [ctx.idlc[profile], os.path.join(root, main_rel)] + BACKENDS[backend] + list(extra)
    for d in incdirs:
        cmd += ["-I", os.path.join(root, d)]
    cmd += ["-o", outpath]
    try:
        p = subprocess.run(cmd, stdout=subprocess.PIPE, stderr=subprocess.PIPE, timeout=timeout,
                           env=C.ENV, cwd=cwd)
        return p.returncode, p.stderr.decode("utf-8", "replace")
    except subprocess.TimeoutExpired:
        return -999, "timeout"


def emit_all(ctx, case, root, outdir, backends=("c", "c-skel", "cpp", "cpp-skel", "rust", "java"), file_rel=None,
             extra=()):
    """run the real compiler on one file of the case for the given backends; returns
    {backend: (rc, {name: text})}"""
    file_rel = file_rel or case["main"]
    stem = os.path.splitext(os.path.basename(file_rel))[0]
    res = {}
    for b in backends:
        if b in ("rust", "java"):
            out = os.path.join(outdir, f"{stem}-{b}")
            os.makedirs(out, exist_ok=True)
        else:
            ext = {"c": ".h", "c-skel": "_invoke.h", "cpp": ".hpp", "cpp-skel": "_invoke.hpp"}[b]
            out = os.path.join(outdir, stem + ext)
        rc, err = run_idlc(ctx, root, file_rel, case.get("incdirs", []), b, out, extra=extra)
        files = {}
        if rc == 0:
            if os.path.isdir(out):
                for fn in sorted(os.listdir(out)):
                    files[fn] = open(os.path.join(out, fn), errors="replace").read()
            elif os.path.exists(out):
                files[os.path.basename(out)] = open(out, errors="replace").read()
        res[b] = (rc, files, err)
    return res
