"""Shared machinery of the checks: builds from /repo's working tree, the Lean build and audit,
line-protocol clients for the probe and the Lean driver, evidence writing, violation reporting."""
import fcntl
import json
import os
import re
import shutil
import subprocess
import sys
import tempfile
import time

VERIF = os.path.dirname(os.path.dirname(os.path.abspath(__file__)))
REPO = "/repo"
CACHE = os.path.join(VERIF, ".cache")
LEAN = os.path.join(VERIF, "lean")
PROBE_BIN = os.path.join(CACHE, "probe-target", "debug", "idlc_probe")
DRIVER_BIN = os.path.join(LEAN, ".lake", "build", "bin", "minkdriver")
ENV = dict(os.environ, CARGO_NET_OFFLINE="true", RUST_BACKTRACE="0")
ALLOWED_AXIOMS = {"propext", "Classical.choice", "Quot.sound"}
FORBIDDEN = re.compile(r"sorry|admit|^\s*axiom |native_decide|bv_decide|implemented_by|unsafe |maxHeartbeats 0")


class TieBroken(Exception):
    """/repo itself builds, but the machinery that ties the model to its source (the probe, which
    links /repo's crates through their public API) no longer builds against it: the
    correspondence can no longer be checked, so the property is no longer shown to hold"""


class HarnessFault(Exception):
    """the machinery itself failed (exit 2, never a VIOLATION)"""


def log(*a):
    print(*a, file=sys.stderr, flush=True)


class Lock:
    def __init__(self, name):
        os.makedirs(CACHE, exist_ok=True)
        self.path = os.path.join(CACHE, name + ".lock")

    def __enter__(self):
        self.fh = open(self.path, "w")
        fcntl.flock(self.fh, fcntl.LOCK_EX)
        return self

    def __exit__(self, *a):
        fcntl.flock(self.fh, fcntl.LOCK_UN)
        self.fh.close()


def run(cmd, cwd=None, timeout=1800, env=None, check=False, stdin=None):
    p = subprocess.run(cmd, cwd=cwd, env=env or ENV, stdout=subprocess.PIPE, stderr=subprocess.PIPE,
                       timeout=timeout, text=True, input=stdin)
    if check and p.returncode != 0:
        raise HarnessFault(f"command failed ({p.returncode}): {' '.join(map(str, cmd))}\n{p.stdout[-3000:]}\n{p.stderr[-3000:]}")
    return p


# ------------------------------------------------------------------ builds from the working tree

def idlc_path(profile="debug"):
    return os.path.join(CACHE, "target", profile, "idlc")


def build_idlc(profile="debug"):
    """cargo decides what is stale (fingerprints over /repo's sources), so an edited tree is
    always rebuilt"""
    with Lock("cargo-idlc"):
        cmd = ["cargo", "build", "--offline", "-p", "idlc", "--target-dir", os.path.join(CACHE, "target")]
        if profile == "release":
            cmd.append("--release")
        elif profile != "debug":
            cmd += ["--profile", profile]
        p = run(cmd, cwd=REPO)
        if p.returncode != 0:
            raise HarnessFault("building idlc from /repo failed:\n" + p.stderr[-4000:])
    return idlc_path(profile)


def build_probe():
    with Lock("cargo-probe"):
        lock = os.path.join(VERIF, "probe", "Cargo.lock")
        if not os.path.exists(lock):
            shutil.copy(os.path.join(REPO, "Cargo.lock"), lock)
        p = run(["cargo", "build", "--offline"], cwd=os.path.join(VERIF, "probe"))
        if p.returncode != 0:
            # a tree that does not build at all is not a change to be judged (harness fault);
            # a tree that builds while the probe does not has changed the API the tie relies on
            build_idlc("debug")
            raise TieBroken("the probe (facts of the real pipeline through /repo's public API) does not build against "
                            "the current source:\n" + p.stderr[-4000:])
    return PROBE_BIN


# ------------------------------------------------------------------ Lean

def regenerate_tables():
    """E0: evaluate the implementation's finite-domain functions and rewrite the table module"""
    pr = run([PROBE_BIN, "tables"])
    if pr.returncode != 0:
        # the implementation's finite-domain functions could not even be evaluated on the current
        # source (they crashed): E0 cannot be regenerated, the tie is broken
        raise TieBroken("the probe crashed while evaluating the implementation's finite-domain functions (`tables`):\n"
                        + (pr.stderr or "")[-3000:])
    out = pr.stdout
    path = os.path.join(LEAN, "MinkModel", "Generated", "Tables.lean")
    old = open(path).read() if os.path.exists(path) else None
    if old != out:
        with open(path, "w") as fh:
            fh.write(out)
    return out


def lake_build(targets):
    with Lock("lake"):
        p = run(["lake", "build"] + list(targets), cwd=LEAN, timeout=3600)
    return p


def obligations_of(prop):
    with open(os.path.join(LEAN, "MinkProofs", "obligations.json")) as fh:
        return json.load(fh)[prop]


def audit_axioms(prop, names):
    """`#print axioms` for every obligation; returns {name: [axioms]} or raises"""
    modules = sorted({m for m in obligations_of(prop)["modules"]})
    src = "".join(f"import {m}\n" for m in modules) + "".join(f"#print axioms {n}\n" for n in names)
    os.makedirs(os.path.join(CACHE, "audit"), exist_ok=True)
    path = os.path.join(CACHE, "audit", f"{prop}.lean")
    with open(path, "w") as fh:
        fh.write(src)
    with Lock("lake"):
        p = run(["lake", "env", "lean", path], cwd=LEAN, timeout=1800)
    text = p.stdout + p.stderr
    res = {}
    for m in re.finditer(r"'([^']+)' depends on axioms: \[([^\]]*)\]", text):
        res[m.group(1)] = [a.strip() for a in m.group(2).replace("\n", " ").split(",") if a.strip()]
    for m in re.finditer(r"'([^']+)' does not depend on any axioms", text):
        res[m.group(1)] = []
    return res, text, p.returncode


def grep_forbidden():
    hits = []
    for root in ("MinkModel", "MinkProofs"):
        for dp, _, fns in os.walk(os.path.join(LEAN, root)):
            for fn in fns:
                if not fn.endswith(".lean"):
                    continue
                in_block = 0
                for i, line in enumerate(open(os.path.join(dp, fn)), 1):
                    code = line
                    # strip comments (block comments may nest; good enough: track depth per line)
                    j = 0
                    out = ""
                    while j < len(code):
                        if code.startswith("/-", j):
                            in_block += 1
                            j += 2
                        elif code.startswith("-/", j) and in_block:
                            in_block -= 1
                            j += 2
                        elif in_block:
                            j += 1
                        elif code.startswith("--", j):
                            break
                        else:
                            out += code[j]
                            j += 1
                    if FORBIDDEN.search(out):
                        hits.append(f"{fn}:{i}: {line.strip()}")
    return hits


def lean_gate(prop, tier):
    """steps 2 of DESIGN section 3: tables, build, axiom audit, forbidden-word grep.
    Returns a dict for the evidence; `broken` lists obligations that no longer check."""
    ob = obligations_of(prop)
    names = ob["theorems"]
    build_probe()              # the tables must come from /repo's CURRENT sources
    regenerate_tables()
    t0 = time.time()
    p = lake_build(ob["modules"] + ["minkdriver"])
    build_s = time.time() - t0
    broken = []
    detail = ""
    if p.returncode != 0:
        detail = (p.stdout + p.stderr)[-6000:]
        # which modules failed?
        failed = re.findall(r"✖ \[\d+/\d+\] Building (\S+)", p.stdout + p.stderr)
        broken = [f"module {m}" for m in failed] or ["lake build"]
        return {"obligations": len(names), "discharged": 0, "broken": broken, "detail": detail,
                "build_s": build_s, "axioms": {}}
    axioms, text, rc = audit_axioms(prop, names)
    for n in names:
        if n not in axioms:
            broken.append(f"{n} (not found / does not check)")
        elif set(axioms[n]) - ALLOWED_AXIOMS:
            broken.append(f"{n} (axioms {sorted(set(axioms[n]) - ALLOWED_AXIOMS)})")
    hits = grep_forbidden()
    if hits:
        broken.append("forbidden constructs: " + "; ".join(hits[:5]))
    if tier == "thorough":
        with Lock("lake"):
            for m in ob["modules"]:
                q = run(["lake", "env", "leanchecker", m], cwd=LEAN, timeout=3600)
                if q.returncode != 0:
                    broken.append(f"leanchecker {m}: {(q.stdout + q.stderr)[-400:]}")
    return {"obligations": len(names), "discharged": len(names) - len([b for b in broken if "(" in b]),
            "broken": broken, "detail": detail or text[-2000:] if broken else "", "build_s": build_s,
            "axioms": axioms}


# ------------------------------------------------------------------ line-protocol clients

class LineProc:
    """request line in, block of lines terminated by '.' out; restarts a dead process"""

    def __init__(self, argv, name):
        self.argv, self.name = argv, name
        self.p = None
        self.restarts = 0

    def start(self):
        self.p = subprocess.Popen(self.argv, stdin=subprocess.PIPE, stdout=subprocess.PIPE,
                                  stderr=subprocess.DEVNULL, text=True, env=ENV, bufsize=1)

    def ask(self, line):
        if self.p is None or self.p.poll() is not None:
            self.start()
        try:
            self.p.stdin.write(line.replace("\n", " ") + "\n")
            self.p.stdin.flush()
            out = []
            while True:
                l = self.p.stdout.readline()
                if l == "":
                    raise BrokenPipeError
                l = l.rstrip("\n")
                if l == ".":
                    return out
                out.append(l)
        except (BrokenPipeError, OSError):
            rc = self.p.wait()
            self.p = None
            self.restarts += 1
            return [f"crash {rc}"]

    def close(self):
        if self.p and self.p.poll() is None:
            try:
                self.p.stdin.close()
                self.p.wait(timeout=5)
            except Exception:
                self.p.kill()
        self.p = None


def probe_client():
    return LineProc([PROBE_BIN, "serve"], "probe")


def driver_client():
    return LineProc([DRIVER_BIN], "driver")


def canon_facts(lines):
    return sorted(l for l in lines if l and not l.startswith("#"))


def diff_facts(a, b):
    sa, sb = set(a), set(b)
    return sorted(sa - sb), sorted(sb - sa)


# ------------------------------------------------------------------ scratch, evidence, reporting

class Scratch:
    def __enter__(self):
        self.dir = tempfile.mkdtemp(prefix="verif-")
        return self.dir

    def __exit__(self, *a):
        shutil.rmtree(self.dir, ignore_errors=True)


def write_evidence(prop, tier, seed, coverage, assumptions, wall_s, violations):
    os.makedirs(os.path.join(VERIF, "evidence"), exist_ok=True)
    ev = {"property_id": prop, "tier": tier, "seed": seed, "level": "proof", "coverage": coverage,
          "assumptions": assumptions, "wall_s": round(wall_s, 2), "violations": violations}
    with open(os.path.join(VERIF, "evidence", f"{prop}.json"), "w") as fh:
        json.dump(ev, fh, indent=1, sort_keys=True)


def write_replay(prop, obj):
    d = os.path.join(VERIF, "replays")
    os.makedirs(d, exist_ok=True)
    path = os.path.join(d, f"{prop}-{int(time.time())}-{os.getpid()}.json")
    with open(path, "w") as fh:
        json.dump(obj, fh, indent=1, sort_keys=True)
    return path


def known_findings(prop):
    out = []
    path = os.path.join(VERIF, "known_findings.jsonl")
    if os.path.exists(path):
        for line in open(path):
            line = line.strip()
            if not line or line.startswith("fixed:") or line.startswith("#"):
                continue
            r = json.loads(line)
            if r["property"] == prop:
                out.append(r)
    return out


TRUSTED_BASE = [
    "Lean 4.33.0 kernel; axioms allowed in obligations: propext, Classical.choice, Quot.sound (audited with #print axioms on every run)",
    "the probe (/verif/probe) faithfully calls and prints /repo's public functions",
    "the correspondence between model and implementation outside the exhaustively tabulated functions is sampled, not proved",
    "Rust's slice::sort is a correct stable sort for the strict weak order induced by Param::cmp (the order itself is tabulated exhaustively)",
]
