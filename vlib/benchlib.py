"""Engine E2 glue: build + run the 3x3 stub x skeleton matrix for a case (bench/e2.py) and analyse
every call against (a) the identity oracle of C01, (b) the Lean driver's reference envelope
(`wire` request), (c) the reference-count oracle of C05."""
import os

from bench import idl, values, e2
from . import common as C

ZERO16 = "00" * 16


def struct_image(case, v):
    """packed byte image of a struct value with object fields blank + (path, object) list"""
    hx, objs = "", []
    for l in v["leaves"]:
        if l["type"] == "object":
            hx += ZERO16
            objs.append((l["path"], l["obj"]))
        else:
            hx += l["hex"]
    return hx, objs


def val_tokens(case, p, v):
    """tokens of one value for the driver's `wire` request"""
    k = v["k"]
    if k == "prim":
        return [p["name"], "d", v["hex"], "0"]
    if k == "buf":
        return [p["name"], "d", v["hex"] or "-", "0"]
    if k == "struct":
        hx, objs = struct_image(case, v)
        t = [p["name"], "d", hx, str(len(objs))]
        for path, o in objs:
            t += [path, "-" if o is None else str(o)]
        return t
    if k == "obj":
        return [p["name"], "o", "-" if v["obj"] is None else str(v["obj"])]
    if k == "objarr":
        return [p["name"], "a", str(len(v["objs"]))] + ["-" if o is None else str(o) for o in v["objs"]]
    raise ValueError(k)


def model_wire(ctx, case, iface, method, plan):
    toks = []
    n = 0
    for p in method["params"]:
        v = plan["ins"].get(p["name"]) if p["dir"] == "in" else plan["outs"].get(p["name"])
        if v is None:
            continue
        toks += val_tokens(case, p, v)
        n += 1
    # the model compiles the file that declares the interface (as the bench does)
    home = next(f["path"] for f in case["files"] for x in f["nodes"] if x["k"] == "interface" and x["name"] == iface)
    sub = case if home == case["main"] else dict(case, main=home, incdirs=list(case.get("incdirs", [])) + ["."], fsmodel=None)
    line = f"wire cli {idl.case_tokens(sub)} {iface} {method['name']} {n} " + " ".join(toks)
    r = ctx.driver.ask(line)
    out = {}
    for l in r:
        k, _, rest = l.partition(" ")
        out[k] = rest
    return out


def parse_slots(text):
    bufs, objs, seq = [], [], []
    for t in text.split():
        kind, _, val = t.partition(":")
        if kind == "buf":
            bufs.append(val)
            seq.append(("buf", val))
        else:
            o = "null" if val == "-" else "t" + val
            objs.append(o)
            seq.append(("obj", o))
    return bufs, objs, seq


def build_and_run(ctx, case, workdir, langs=("c", "cpp", "rust"), valuations=3, typed=True, sanitize=False, cc="gcc", cxx="g++"):
    """returns (build result, run result or None, langs actually used)"""
    b = e2.build(case, workdir, ctx.idlc["debug"], langs=langs, valuations=valuations, seed=ctx.seed,
                 typed=typed, sanitize=sanitize, cc=cc, cxx=cxx)
    if not b["ok"]:
        return b, None, langs
    r = e2.run(b, timeout=120)
    return b, r, tuple(b["plan"]["langs"]) if "langs" in b["plan"] else langs


def failed_units(b):
    return [{"unit": u["unit"], "stderr": u["stderr"][-400:]} for u in b["units"] if u["rc"] != 0]


def analyse(ctx, case, b, r):
    """per call: {"key":(stub,skel,iface,method,val), "plan":…, "records":…, findings lists}"""
    out = []
    plans = {}
    for c in b["plan"]["calls"]:
        plans[(c["iface"], c["method"])] = c
    for grp in e2.split_calls(r["records"]):
        call = grp["call"]
        pc = plans[(call["iface"], call["method"])]
        plan = pc["vals"][call["val"]]
        recs = grp["records"]
        env = next((x for x in recs if x["ev"] == "envelope"), None)
        impl = next((x for x in recs if x["ev"] == "impl"), None)
        reply = next((x for x in recs if x["ev"] == "reply"), None)
        ret = next((x for x in recs if x["ev"] == "ret"), None)
        refs = [x for x in recs if x["ev"] == "refs"]
        out.append({"call": call, "pc": pc, "plan": plan, "env": env, "impl": impl, "reply": reply, "ret": ret, "refs": refs})
    return out


def method_of(case, iface, name):
    for owner, m, op in idl.flat_methods(case, iface):
        if m["name"] == name:
            return owner, m, op
    return None


def identity_failures(a):
    """C01's oracle: implementation saw the caller's inputs; caller got the implementation's
    outputs, lengths and status"""
    plan, pc = a["plan"], a["pc"]
    fails = []
    if pc.get("optional"):
        if a["impl"] is not None:
            fails.append({"error": "optional method without implementation was entered"})
        if a["ret"] is None or a["ret"]["status"] != 2:
            fails.append({"error": "optional unimplemented method must return ERROR_INVALID (2)", "got": a["ret"] and a["ret"]["status"]})
        return fails
    if a["ret"] is None:
        return [{"error": "no `ret` record (crash or refused by the transport)", "reply": a["reply"]}]
    if a["impl"] is None:
        fails.append({"error": "the implementation was not entered", "status": a["ret"]["status"], "reply": a["reply"]})
        return fails
    want_ins = {k: values.canon(v) for k, v in plan["ins"].items()}
    got_ins = {k: v for k, v in a["impl"]["ins"].items() if k != "outcap"}
    if got_ins != want_ins:
        bad = sorted(k for k in want_ins if got_ins.get(k) != want_ins[k])
        fails.append({"error": "implementation saw different input values", "params": bad[:4],
                      "expected": {k: want_ins[k] for k in bad[:2]}, "got": {k: got_ins.get(k) for k in bad[:2]}})
    caps = a["impl"]["ins"].get("outcap", {})
    for k, cap in plan["caps"].items():
        if caps.get(k) != cap:
            fails.append({"error": "implementation saw a different output capacity", "param": k, "expected": cap, "got": caps.get(k)})
    if a["ret"]["status"] != plan["status"]:
        fails.append({"error": "caller got a different status", "expected": plan["status"], "got": a["ret"]["status"]})
    if plan["status"] == 0:
        want_outs = {}
        want_len = {}
        for k, v in plan["outs"].items():
            want_outs[k] = values.canon(v)
            if v["k"] == "buf":
                want_len[k] = v["len"]
                want_outs[k] = v["hex"]
        got_outs = {}
        for k, v in a["ret"]["outs"].items():
            got_outs[k] = v["hex"] if isinstance(v, dict) and "hex" in v else v
        # compare buffers on their reported length only
        for k in want_outs:
            if isinstance(want_outs[k], str) and k in want_len and isinstance(got_outs.get(k), str):
                got_outs[k] = got_outs[k][:len(want_outs[k])]
        if got_outs != want_outs:
            bad = sorted(k for k in want_outs if got_outs.get(k) != want_outs[k])
            fails.append({"error": "caller got different output values", "params": bad[:4],
                          "expected": {k: want_outs[k] for k in bad[:2]}, "got": {k: got_outs.get(k) for k in bad[:2]}})
        if a["ret"].get("lenouts", {}) != want_len:
            fails.append({"error": "caller got different output lengths", "expected": want_len, "got": a["ret"].get("lenouts")})
    return fails


def refcount_failures(a):
    """C05's oracle: after caller and implementation dropped what they hold, every counting
    object is back to zero references (it started at one, owned by its creator); on success no
    net retain/release imbalance; on a failed call no output object was adopted"""
    fails = []
    for r in a["refs"]:
        if r["count"] != 0:
            fails.append({"error": "reference count does not return to its starting value", "token": r["token"],
                          "retains": r["retains"], "releases": r["releases"], "final": r["count"]})
    return fails


def envelope_vs_model(a, mw, op):
    """correspondence of the real envelope / reply with the Lean reference encoder"""
    dis = []
    env, reply, plan = a["env"], a["reply"], a["plan"]
    if env is None or "verdict" not in mw or not mw["verdict"].startswith("accept"):
        return [{"error": "no envelope / model rejected", "model": mw.get("verdict")}]
    counts = tuple(int(x) for x in mw["counts"].split(","))
    k = counts[0] | (counts[1] << 4) | (counts[2] << 8) | (counts[3] << 12)
    if env["op"] != int(mw["op"]) or env["op"] != op:
        dis.append({"error": "op differs", "real": env["op"], "model": mw["op"]})
    if env["k"] != k:
        dis.append({"error": "counts word differs", "real": env["k"], "model": k})
    mb, mo, _ = parse_slots(mw.get("req", ""))
    rb = [s.get("hex", "") for s in env["slots"] if s["c"] == "bi"]
    ro = [s.get("obj") for s in env["slots"] if s["c"] == "oi"]
    if rb != mb:
        dis.append({"error": "input buffer bytes differ from the reference encoding", "real": rb[:4], "model": mb[:4]})
    if ro != mo:
        dis.append({"error": "input objects differ from the reference encoding", "real": ro[:6], "model": mo[:6]})
    if reply is not None and plan["status"] == 0 and reply.get("status") == 0:
        pb, po, _ = parse_slots(mw.get("rep", ""))
        rb = [s.get("hex", "")[:2 * s.get("size", 0)] for s in reply.get("bo", [])]
        if rb != pb:
            dis.append({"error": "output buffer bytes differ from the reference encoding", "real": rb[:4], "model": pb[:4]})
        if list(reply.get("oo", [])) != po:
            dis.append({"error": "output objects differ from the reference encoding", "real": reply.get("oo"), "model": po})
    return dis
