"""Type-directed generator of IDL file sets (cases, see bench/SPEC.md section 1).

All randomness comes from the `random.Random` passed in.  `Opts` selects which parts of the
parameter-shape alphabet are used; the defaults avoid the constructs whose *known* defects
(DESIGN.md section 9) would make unrelated oracles fail; individual checks widen them
together with the known-finding classifiers that cover what the new shapes reach.
"""
import copy
from bench import idl

PRIMS = idl.PRIM_ORDER


class Opts:
    def __init__(self, **kw):
        self.max_files = 3
        self.max_structs = 5
        self.max_ifaces = 4
        self.max_depth = 3            # inheritance depth
        self.max_methods = 5
        self.max_params = 6
        self.obj_structs = True       # big structs with object fields
        self.small_obj_structs = False  # structs <= 16 bytes with object fields (S2/S3/S4)
        self.dup_struct_fields = False  # two fields of the same object-bearing struct type (S5)
        self.obj_arrays = True
        self.mix_inarr_outobj = False   # `in I[n]` together with `out I` (S1)
        self.two_obj_arrays = False     # S9
        self.pad_bundles = False        # small structs whose size is not a power of two in bundles (S7)
        self.consts = True
        self.errors = True
        self.docs = True
        self.optional = True
        self.out_of_order = False       # declarations used before they are defined (S16)
        self.typed_objects = True
        self.struct_arrays = True
        self.floats = True
        self.nested = True
        self.big_counts = False         # parameter multiplicities around 15/16
        self.float_consts = True        # float constants do not compile in C++ (FLOAT()/DOUBLE(), K17)
        self.reuse_names = True         # methods of unrelated interfaces may share a name
        self.__dict__.update(kw)


class Namer:
    def __init__(self):
        self.n = {}

    def new(self, prefix):
        k = self.n.get(prefix, 0) + 1
        self.n[prefix] = k
        return f"{prefix}{k}"


INT_BOUNDS = {
    "uint8": (0, 2**8 - 1), "uint16": (0, 2**16 - 1), "uint32": (0, 2**32 - 1), "uint64": (0, 2**64 - 1),
    "int8": (-2**7, 2**7 - 1), "int16": (-2**15, 2**15 - 1), "int32": (-2**31, 2**31 - 1), "int64": (-2**63, 2**63 - 1),
}


def gen_literal(rng, t):
    """an in-range literal without leading zeros (the sub-language on which constants are
    well behaved in every backend, see C17)"""
    if t in INT_BOUNDS:
        lo, hi = INT_BOUNDS[t]
        v = rng.choice([lo, hi, 0, 1, hi - 1, lo + 1, rng.randint(lo, hi)])
        if v >= 0 and rng.random() < 0.3:
            return hex(v)
        return str(v)
    return rng.choice(["0.5", "1.25", "3.0", "-2.5", "100.125", "0.0"])


class StructInfo:
    def __init__(self, name, size, align, has_obj, node):
        self.name, self.size, self.align, self.has_obj, self.node = name, size, align, has_obj, node


def gen_struct(rng, nm, opts, known, ifaces_known, want_obj=None, max_size=None):
    """a struct that the struct verifier accepts: each field offset divisible by its
    alignment, total divisible by the maximal alignment"""
    name = nm.new("S")
    want_obj = (opts.obj_structs and rng.random() < 0.25) if want_obj is None else want_obj
    fields = []
    size, align, has_obj = 0, 1, False
    nfields = rng.randint(1, 5)
    used_struct_types = set()
    for _ in range(nfields):
        choices = ["prim"] * 5
        if opts.nested and known:
            choices += ["struct"] * 2
        if want_obj:
            choices += ["obj"] * 2
        kind = rng.choice(choices)
        if kind == "prim":
            t = rng.choice(PRIMS if opts.floats else PRIMS[:8])
            fsz, fal, fobj = idl.PRIMS[t], idl.PRIMS[t], False
        elif kind == "struct":
            cands = [s for s in known if (opts.dup_struct_fields or not (s.has_obj and s.name in used_struct_types))
                     and (want_obj or not s.has_obj)]
            if not cands:
                continue
            s = rng.choice(cands)
            t, fsz, fal, fobj = s.name, s.size, s.align, s.has_obj
            used_struct_types.add(s.name)
        else:
            if opts.typed_objects and ifaces_known and rng.random() < 0.5:
                t = rng.choice(ifaces_known)
                fal = 8          # the object-struct shadow entry: two uint64
            else:
                t = "interface"
                fal = 16
            fsz, fobj = 16, True
        cnt = 1
        if kind != "obj" and rng.random() < 0.25:
            cnt = rng.choice([2, 3, 4, 8])
        if kind == "struct" and fobj:
            cnt = 1            # arrays of object-bearing structs give unindexable paths (S5)
        # pad to the field's alignment with uint8
        if size % fal != 0:
            pad = fal - size % fal
            fields.append({"type": "uint8", "count": pad, "name": nm.new("f"), "force_array": True})
            size += pad
        if max_size is not None and size + fsz * cnt > max_size:
            continue
        fields.append({"type": t, "count": cnt, "name": nm.new("f")})
        size += fsz * cnt
        align = max(align, fal)
        has_obj = has_obj or fobj
    if not fields:
        fields.append({"type": "uint8", "count": 1, "name": nm.new("f")})
        size, align = 1, 1
    if size % align != 0:
        pad = align - size % align
        if max_size is not None and size + pad > max_size:
            return gen_struct(rng, nm, opts, known, ifaces_known, want_obj=False, max_size=max_size)
        fields.append({"type": "uint8", "count": pad, "name": nm.new("f"), "force_array": True})
        size += pad
    node = {"k": "struct", "name": name, "fields": fields}
    return StructInfo(name, size, align, has_obj, node)


def gen_param(rng, nm, opts, structs, ifaces, d, state):
    """one parameter of direction d respecting the interface-verifier rules;
    `state` tracks object arrays / single objects per direction"""
    kinds = ["prim"] * 4 + ["buffer"] * 2 + ["primarr"] + ["obj"] * 2
    data_structs = [s for s in structs if not s.has_obj]
    if data_structs:
        kinds += ["struct"] * 3
        if opts.struct_arrays:
            kinds += ["structarr"]
    obj_structs = [s for s in structs if s.has_obj and (s.size > 16 or opts.small_obj_structs)]
    if obj_structs:
        kinds += ["objstruct"]
    if opts.obj_arrays:
        kinds += ["objarr"]
    kind = rng.choice(kinds)
    name = nm.new("p")
    if kind == "prim":
        return {"dir": d, "type": rng.choice(PRIMS if opts.floats else PRIMS[:8]), "arr": None, "name": name}
    if kind == "buffer":
        return {"dir": d, "type": "buffer", "arr": None, "name": name}
    if kind == "primarr":
        return {"dir": d, "type": rng.choice(PRIMS if opts.floats else PRIMS[:8]), "arr": "unbounded", "name": name}
    if kind == "struct":
        cands = data_structs
        if not opts.pad_bundles:
            # small structs whose size is a power of two only (bundle layout hazard S7)
            cands = [s for s in data_structs if s.size > 16 or s.size in (1, 2, 4, 8, 16)] or None
            if cands is None:
                return {"dir": d, "type": "uint32", "arr": None, "name": name}
        return {"dir": d, "type": rng.choice(cands).name, "arr": None, "name": name}
    if kind == "structarr":
        return {"dir": d, "type": rng.choice(data_structs).name, "arr": "unbounded", "name": name}
    if kind == "objstruct":
        return {"dir": d, "type": rng.choice(obj_structs).name, "arr": None, "name": name}
    objty = rng.choice(ifaces) if (opts.typed_objects and ifaces and rng.random() < 0.6) else "interface"
    if kind == "obj":
        if state[d]["arr"]:
            return {"dir": d, "type": "uint16", "arr": None, "name": name}
        if d == "out" and state["in"]["arr"] and not opts.mix_inarr_outobj:
            return {"dir": d, "type": "uint16", "arr": None, "name": name}
        state[d]["val"] = True
        return {"dir": d, "type": objty, "arr": None, "name": name}
    # objarr
    if state[d]["val"] or (state[d]["arr"] and not opts.two_obj_arrays):
        return {"dir": d, "type": "uint8", "arr": None, "name": name}
    if d == "in" and state["out"]["val"] and not opts.mix_inarr_outobj:
        return {"dir": d, "type": "uint8", "arr": None, "name": name}
    state[d]["arr"] = True
    return {"dir": d, "type": objty, "arr": rng.choice([1, 2, 3]), "name": name}


def gen_method(rng, nm, opts, structs, ifaces):
    name = nm.new("m")
    state = {"in": {"arr": False, "val": False}, "out": {"arr": False, "val": False}}
    n = rng.randint(0, opts.max_params)
    if opts.big_counts and rng.random() < 0.3:
        n = rng.randint(12, 20)
    params = [gen_param(rng, nm, opts, structs, ifaces, rng.choice(["in", "out"]), state) for _ in range(n)]
    # the counts word has 4 bits per class: keep every class <= 15 unless big_counts
    m = {"k": "method", "name": name, "optional": bool(opts.optional and rng.random() < 0.1),
         "doc": None, "params": params}
    if opts.docs and rng.random() < 0.15:
        m["doc"] = rng.choice(["  * documented\n  ", " text\n", "* a\n* b\n   ", "\n",
                               "  µs-ticks since boot — wraps\n   ", " * Größe in Byte\n ", "日本語の説明\n  ", "   é\n "])
    return m


def gen_iface(rng, nm, opts, structs, ifaces, base):
    name = nm.new("I")
    members = []
    for _ in range(rng.randint(0, opts.max_methods + 2)):
        r = rng.random()
        if r < 0.15 and opts.consts:
            t = rng.choice(PRIMS if (opts.floats and opts.float_consts) else PRIMS[:8])
            members.append({"k": "const", "type": t, "name": nm.new("K"), "value": gen_literal(rng, t)})
        elif r < 0.35 and opts.errors:
            members.append({"k": "error", "name": nm.new("E")})
        else:
            members.append(gen_method(rng, nm, opts, structs, ifaces + [name]))
    return {"k": "interface", "name": name, "base": base, "members": members}


def gen_case(rng, opts=None, cid="case"):
    opts = opts or Opts()
    nm = Namer()
    nfiles = rng.randint(1, opts.max_files)
    # file 0 is the main file; file i may include files with larger index (a DAG)
    paths = ["main.idl"] + [rng.choice(["", "inc/", "inc/sub/"]) + f"f{i}.idl" for i in range(1, nfiles)]
    decls = []            # (node, kind) in dependency order
    structs, ifaces = [], []
    n_structs = rng.randint(0, opts.max_structs)
    n_ifaces = rng.randint(1, opts.max_ifaces)
    plan = ["struct"] * n_structs + ["iface"] * n_ifaces
    rng.shuffle(plan)
    iface_nodes = []
    for what in plan:
        if what == "struct":
            s = gen_struct(rng, nm, opts, structs, ifaces,
                           max_size=16 if rng.random() < 0.4 else None)
            if s.has_obj and s.size <= 16 and not opts.small_obj_structs:
                s = gen_struct(rng, nm, opts, structs, ifaces, want_obj=False)
            structs.append(s)
            decls.append(s.node)
        else:
            base = None
            cands = [i for i in iface_nodes if i["_depth"] < opts.max_depth]
            if cands and rng.random() < 0.5:
                b = rng.choice(cands)
                base = b["name"]
            i = gen_iface(rng, nm, opts, structs, ifaces, base)
            i["_depth"] = 0 if base is None else next(x["_depth"] for x in iface_nodes if x["name"] == base) + 1
            iface_nodes.append(i)
            ifaces.append(i["name"])
            decls.append(i)
    if opts.consts:
        for _ in range(rng.randint(0, 3)):
            t = rng.choice(PRIMS if (opts.floats and opts.float_consts) else PRIMS[:8])
            decls.insert(rng.randint(0, len(decls)), {"k": "const", "type": t, "name": nm.new("K"), "value": gen_literal(rng, t)})
    # distribute declarations over files: a declaration may live in any file; a file must
    # (transitively) include the files holding what its declarations use. We keep it simple
    # and sound: file i includes all files j > i that hold a declaration (dependencies always
    # point to declarations generated earlier, which we place in files with index >= the
    # user's index).
    nodes = [[] for _ in paths]
    where = {}
    for d in decls:
        dn = d.get("name")
        deps = _deps(d)
        # a file sees itself and every file with a larger index: users must sit at an index
        # <= the smallest index among their dependencies
        lo = min([where[x] for x in deps if x in where] + [len(paths) - 1])
        fi = rng.randint(0, lo) if rng.random() < 0.7 else 0
        where[dn] = fi
        nodes[fi].append(d)
    files = []
    for i, p in enumerate(paths):
        incs = []
        for j in range(i + 1, len(paths)):
            if nodes[j] or rng.random() < 0.3:
                incs.append(j)
        body = [n for n in nodes[i]]
        for n in body:
            n.pop("_depth", None)
        # the order of the include lines is free (a file reached through an earlier include may
        # be included again later, in any position)
        rng.shuffle(incs)
        inc_nodes = [{"k": "include", "path": _inc_string(paths[i], paths[j], rng)} for j in incs]
        files.append({"path": p, "nodes": inc_nodes + body})
    incdirs = sorted({idl._dir_of(p) for p in paths[1:]} - {"."})
    rng.shuffle(incdirs)
    case = {"id": cid, "files": files, "main": "main.idl", "incdirs": incdirs}
    if opts.reuse_names:
        reuse_method_names(case, rng)
    return case


def reuse_method_names(case, rng):
    """real IDLs call methods of unrelated interfaces alike (open/close/get): give some methods
    the name of a method of an interface outside their own inheritance line"""
    ifs = {n["name"]: n for f in case["files"] for n in f["nodes"] if n["k"] == "interface"}

    def line(name):                     # ancestors, itself, descendants
        anc, cur = set(), name
        while cur is not None and cur in ifs:
            anc.add(cur)
            cur = ifs[cur].get("base")
        changed = True
        rel = set(anc)
        while changed:
            changed = False
            for k, v in ifs.items():
                if v.get("base") in rel and k not in rel:
                    # only descendants of `name` itself or of its descendants matter, but being
                    # generous here only loses opportunities
                    rel.add(k)
                    changed = True
        return rel
    for name, node in ifs.items():
        rel = line(name)
        taken = {m["name"] for k in rel for m in ifs[k]["members"] if m["k"] == "method"}
        pool = sorted({m["name"] for k, v in ifs.items() if k not in rel for m in v["members"] if m["k"] == "method"} - taken)
        for m in node["members"]:
            if m["k"] == "method" and pool and rng.random() < 0.35:
                new = rng.choice(pool)
                pool.remove(new)
                taken.add(new)
                m["name"] = new


def _inc_string(frm, to, rng):
    import os
    base = os.path.basename(to)
    if rng.random() < 0.5:
        return base                      # bare name: resolved through the search path
    r = os.path.relpath(to, os.path.dirname(frm) or ".")
    if os.path.dirname(r) == "":
        r = "./" + r
    return r


def _deps(d):
    out = set()
    if d["k"] == "struct":
        for f in d["fields"]:
            if f["type"] not in idl.PRIMS and f["type"] != "interface":
                out.add(f["type"])
    elif d["k"] == "interface":
        if d.get("base"):
            out.add(d["base"])
        for m in d["members"]:
            if m["k"] == "method":
                for p in m["params"]:
                    if p["type"] not in idl.PRIMS and p["type"] not in ("interface", "buffer") and p["type"] != d["name"]:
                        out.add(p["type"])
    return out


def clone(case):
    return copy.deepcopy(case)


# ---------------------------------------------------------------- deterministic coverage corpus

def coverage_case(cid="coverage"):
    """one fixed file that uses every parameter kind in both directions at least once (alone and
    next to others), so that every run of an execution check reaches every visitor of every
    backend whatever the random generator happens to draw"""
    def P(d, t, n, arr=None):
        return {"dir": d, "type": t, "arr": arr, "name": n}

    def M(name, params, optional=False):
        return {"k": "method", "name": name, "optional": optional, "doc": None, "params": params}

    def S(name, fields):
        return {"k": "struct", "name": name, "fields": [{"type": t, "count": c, "name": n} for t, c, n in fields]}

    nodes = [
        {"k": "interface", "name": "IPeer", "base": None, "members": [M("ping", [])]},
        S("S8", [("uint32", 1, "a"), ("uint16", 1, "b"), ("uint8", 2, "c")]),
        S("B24", [("uint64", 1, "a"), ("uint32", 2, "b"), ("uint16", 4, "c")]),
        S("N32", [("B24", 1, "inner"), ("S8", 1, "tail")]),
        S("H24", [("uint32", 1, "a"), ("uint32", 1, "b"), ("IPeer", 1, "o")]),
        S("H48", [("uint64", 1, "a"), ("IPeer", 1, "p"), ("uint64", 1, "b"), ("interface", 1, "q")]),
        S("HN32", [("IPeer", 1, "owner"), ("S8", 1, "created"), ("uint64", 1, "z")]),
        S("P2", [("uint8", 1, "r"), ("uint8", 1, "g")]),
        S("T8", [("uint16", 1, "id"), ("P2", 3, "px")]),
        S("Strip24", [("P2", 12, "px")]),
        S("Rgb", [("uint8", 3, "c")]),
        S("W4", [("uint16", 1, "lo"), ("uint16", 1, "hi")]),
        S("HE24", [("IPeer", 1, "peer"), ("uint64", 1, "cookie")]),
        S("HR32", [("uint64", 1, "id"), ("HE24", 1, "hop")]),
        {"k": "interface", "name": "ICov", "base": None, "members": [
            {"k": "error", "name": "COV_FAIL"},
            M("none", []),
            M("prim_in", [P("in", "uint32", "x")]),
            M("prim_out", [P("out", "uint16", "y")]),
            M("prims", [P("in", "uint8", "a"), P("in", "uint64", "b"), P("in", "int16", "c"), P("out", "int32", "d"), P("out", "float64", "e")]),
            M("bufs", [P("in", "buffer", "a"), P("out", "buffer", "b")]),
            M("arrs", [P("in", "uint16", "a", "unbounded"), P("out", "uint32", "b", "unbounded")]),
            M("small", [P("in", "S8", "s"), P("out", "S8", "t")]),
            M("small_bundled", [P("in", "S8", "s"), P("in", "uint32", "x"), P("out", "S8", "t"), P("out", "uint8", "y")]),
            M("big", [P("in", "B24", "s"), P("out", "B24", "t")]),
            M("nested", [P("in", "N32", "s"), P("out", "N32", "t")]),
            M("sarrs", [P("in", "B24", "s", "unbounded"), P("out", "S8", "t", "unbounded")]),
            M("objs", [P("in", "IPeer", "p"), P("in", "interface", "u"), P("out", "IPeer", "q")]),
            M("objarr_in", [P("in", "IPeer", "ps", 2), P("in", "uint32", "x")]),
            M("objarr_out", [P("out", "IPeer", "qs", 3), P("out", "uint32", "y")]),
            M("held_in", [P("in", "H24", "h")]),
            M("held_out", [P("out", "H24", "h")]),
            M("held2_in", [P("in", "H48", "h")]),
            M("held2_out", [P("out", "H48", "h")]),
            M("held3_in", [P("in", "HN32", "h")]),
            M("held3_out", [P("out", "HN32", "h")]),
            M("tile", [P("in", "T8", "t"), P("in", "uint32", "key"), P("out", "T8", "u")]),
            M("strip", [P("in", "Strip24", "s"), P("in", "uint32", "key"), P("out", "Strip24", "w")]),
            M("paint", [P("in", "Rgb", "colour"), P("in", "uint16", "depth")]),
            M("probe", [P("out", "Rgb", "colour"), P("out", "uint16", "depth")]),
            M("route_in", [P("in", "HR32", "rt")]),
            M("arr_bundle", [P("in", "IPeer", "xs", 2), P("out", "uint32", "a"), P("out", "uint32", "b")]),
            M("obj_bundle", [P("in", "IPeer", "x"), P("out", "uint16", "a"), P("out", "uint64", "b"), P("out", "IPeer", "y")]),
            M("pick", [P("in", "B24", "recs", "unbounded"), P("out", "IPeer", "newest")]),
            M("pick2", [P("in", "uint16", "a", "unbounded"), P("in", "buffer", "raw"), P("out", "interface", "q")]),
            M("swap_arrays", [P("in", "IPeer", "xs", 2), P("in", "uint16", "n"), P("out", "IPeer", "ys", 2)]),
            M("attach", [P("in", "H24", "slot"), P("in", "IPeer", "extras", 2)]),
            M("detach", [P("out", "H24", "slot"), P("out", "IPeer", "extras", 2)]),
            M("read_row", [P("in", "uint32", "x"), P("out", "S8", "row", "unbounded"), P("out", "uint32", "w"), P("out", "uint16", "h")]),
            M("write_row", [P("in", "S8", "row", "unbounded"), P("in", "uint32", "w"), P("in", "uint16", "h"), P("out", "uint8", "ok")]),
            M("mix", [P("in", "buffer", "a"), P("in", "uint32", "x"), P("in", "IPeer", "p"), P("out", "uint64", "y"), P("out", "buffer", "b"), P("out", "IPeer", "q")]),
            # a small struct and a primitive of the SAME size in one bundle (ties keep declaration order)
            M("tie", [P("in", "W4", "w"), P("in", "uint32", "x"), P("out", "W4", "rw"), P("out", "uint32", "rx")]),
            M("tie2", [P("in", "uint32", "x"), P("in", "W4", "w"), P("in", "uint16", "y"), P("out", "uint16", "ry"), P("out", "W4", "rw")]),
            M("opt", [P("in", "uint32", "x"), P("out", "uint32", "y")], optional=True),
            # the method after an optional one that the implementor left out has the very same
            # counts and sizes (a dispatch that falls through would serve it under the wrong op)
            M("after_opt", [P("in", "uint32", "x"), P("out", "uint32", "y")]),
            dict(M("opt_impl", [P("in", "uint16", "x"), P("out", "uint64", "y")], optional=True), implemented=True),
            # implemented optional methods whose results need the skeleton's work AFTER the call:
            # reported output lengths, output object arrays, objects embedded in output structs
            dict(M("opt_fill", [P("in", "uint32", "seed"), P("out", "buffer", "data")], optional=True), implemented=True),
            dict(M("opt_words", [P("in", "uint16", "n"), P("out", "uint32", "words", "unbounded"), P("out", "uint32", "total")], optional=True), implemented=True),
            dict(M("opt_objs", [P("out", "IPeer", "objs", 2)], optional=True), implemented=True),
            dict(M("opt_held", [P("out", "H24", "h")], optional=True), implemented=True),
        ]},
        # an unrelated interface whose methods have the names AND positions (op-codes) of ICov's
        # first methods but other signatures (whatever is keyed by name or op must not leak)
        {"k": "interface", "name": "ICov2", "base": None, "members": [
            M("none", [P("in", "buffer", "name"), P("out", "IPeer", "handle")]),
            M("prim_in", [P("out", "uint64", "size")]),
            M("prim_out", [P("in", "uint64", "a"), P("in", "uint8", "b"), P("out", "S8", "s")]),
            M("prims", [P("in", "IPeer", "p")]),
        ]},
        {"k": "interface", "name": "IDer", "base": "ICov", "members": [
            M("extra", [P("in", "uint32", "x"), P("in", "B24", "s"), P("out", "uint32", "y")]),
            M("bare", []),
        ]},
        {"k": "interface", "name": "IDeep", "base": "IDer", "members": [
            {"k": "error", "name": "DEEP_FAIL"},
            M("deepest", [P("in", "uint16", "x"), P("out", "uint16", "y")]),
        ]},
    ]
    return {"id": cid, "files": [{"path": "main.idl", "nodes": nodes}], "main": "main.idl", "incdirs": []}


def nesting_case(depth, split, cid="nesting"):
    """a chain of structs S0 < S1 < ... < S<depth> (each contains the previous one), the first
    `split` of them declared in an included file, the rest and an interface using the outermost
    one in the main file; every struct is padding free"""
    def S(j):
        fields = [{"type": "uint64", "count": 1, "name": f"v{j}"}]
        if j > 0:
            fields.insert(0, {"type": f"S{j - 1}", "count": 1 + (j % 2), "name": f"in{j}"})
        return {"k": "struct", "name": f"S{j}", "fields": fields}
    inc = [S(j) for j in range(split)]
    main = [{"k": "include", "path": "deps.idl"}] if inc else []
    main += [S(j) for j in range(split, depth + 1)]
    top = f"S{depth}"
    main.append({"k": "interface", "name": "INest", "base": None, "members": [
        {"k": "method", "name": "put", "optional": False, "doc": None, "params": [{"dir": "in", "type": top, "arr": None, "name": "s"}]},
        {"k": "method", "name": "get", "optional": False, "doc": None, "params": [{"dir": "out", "type": top, "arr": None, "name": "s"}]},
        {"k": "method", "name": "inner", "optional": False, "doc": None, "params": [{"dir": "in", "type": "S0", "arr": None, "name": "a"}, {"dir": "out", "type": "S1", "arr": "unbounded", "name": "b"}]}]})
    files = [{"path": "main.idl", "nodes": main}]
    if inc:
        files.append({"path": "deps.idl", "nodes": inc})
    return {"id": f"{cid}-{depth}-{split}", "files": files, "main": "main.idl", "incdirs": []}


def coverage_case2(cid="coverage2"):
    """structs whose objects sit only in nested structs, in both directions (the C++ skeleton
    did not compile for the `out` direction before fix 373fee2; all three backends now)"""
    def P(d, t, n, arr=None):
        return {"dir": d, "type": t, "arr": arr, "name": n}

    def M(name, params):
        return {"k": "method", "name": name, "optional": False, "doc": None, "params": params}

    def S(name, fields):
        return {"k": "struct", "name": name, "fields": [{"type": t, "count": c, "name": n} for t, c, n in fields]}
    nodes = [
        {"k": "interface", "name": "IPeer", "base": None, "members": [M("ping", [])]},
        S("HE24", [("IPeer", 1, "peer"), ("uint64", 1, "cookie")]),
        S("HR32", [("uint64", 1, "id"), ("HE24", 1, "hop")]),
        S("HD48", [("uint64", 1, "id"), ("HE24", 1, "first"), ("interface", 1, "direct")]),
        {"k": "interface", "name": "IRoute", "base": None, "members": [
            M("route_out", [P("out", "HR32", "rt")]),
            M("route_both", [P("in", "HR32", "a"), P("out", "HR32", "b")]),
            M("deep_in", [P("in", "HD48", "d")]),
            M("deep_out", [P("out", "HD48", "d")]),
            M("witnessed", [P("in", "HR32", "box"), P("in", "IPeer", "witness")]),
        ]},
    ]
    return {"id": cid, "files": [{"path": "main.idl", "nodes": nodes}], "main": "main.idl", "incdirs": []}


def name_main_after_iface(case, rng, which=None):
    """the usual Mink naming: the main file is called like one of its interfaces (as written or
    lower-cased); returns the case (modified in place) or None when it does not apply"""
    import os
    main_f = next(f for f in case["files"] if f["path"] == case["main"])
    ifs_ = [x["name"] for x in main_f["nodes"] if x["k"] == "interface"]
    if not ifs_ or os.path.dirname(case["main"]) != "":
        return None
    nm = which if which is not None else rng.choice(ifs_)
    nm = rng.choice([nm, nm.lower()]) + ".idl"
    if any(f["path"].lower() == nm.lower() for f in case["files"]):
        return None
    main_f["path"] = nm
    case["main"] = nm
    case.pop("fsmodel", None)
    return case


def big_iface_case(rng, cid="big", grouped=False):
    """interfaces with 20-40 members (constants, errors and methods interleaved, or grouped by
    kind), a derived one on top: sizes at which container algorithms change behaviour"""
    def members(prefix, n):
        out = []
        for i in range(n):
            k = rng.choice(["m", "m", "e", "c"])
            if k == "m":
                out.append({"k": "method", "name": f"{prefix}m{i:02d}", "optional": rng.random() < 0.15, "doc": None,
                            "params": [{"dir": "in", "type": "uint32", "arr": None, "name": "x"}] if i % 2 else []})
            elif k == "e":
                out.append({"k": "error", "name": f"{prefix.upper()}E{i:02d}"})
            else:
                out.append({"k": "const", "type": "uint16", "name": f"{prefix.upper()}K{i:02d}", "value": str(i)})
        if grouped:
            out.sort(key=lambda m: {"const": 0, "error": 1, "method": 2}[m["k"]])
        return out
    nodes = [{"k": "interface", "name": "IBigA", "base": None, "members": members("a", rng.randint(21, 40))},
             {"k": "interface", "name": "IBigB", "base": "IBigA", "members": members("b", rng.randint(21, 30))}]
    return {"id": cid, "files": [{"path": "main.idl", "nodes": nodes}], "main": "main.idl", "incdirs": []}


def coverage_case3(cid="coverage3"):
    """methods with more than 20 parameters: 24 small inputs and 22 small outputs of mixed sizes
    (ties inside the bundles), and 22 parameters of all classes declared out of class order"""
    def P(d, t, n, arr=None):
        return {"dir": d, "type": t, "arr": arr, "name": n}

    def M(name, params):
        return {"k": "method", "name": name, "optional": False, "doc": None, "params": params}
    tys = ["uint8", "uint64", "uint16", "uint32", "int8", "int64", "int16", "int32"]
    wide = [P("in", tys[(i * 5) % 8], f"a{i:02d}") for i in range(24)] + [P("out", tys[(i * 3 + 1) % 8], f"r{i:02d}") for i in range(22)]
    hdr = {"k": "struct", "name": "Hdr24", "fields": [{"type": "uint64", "count": 3, "name": "w"}]}
    pol = {"k": "struct", "name": "Pol32", "fields": [{"type": "uint64", "count": 4, "name": "w"}]}
    mixed = [P("out", "uint32", "status"), P("in", "Hdr24", "hdr"), P("in", "buffer", "b0"), P("in", "Pol32", "pol"), P("out", "buffer", "ob")] + \
            [P("in", "uint8", f"f{i:02d}") for i in range(12)] + [P("in", "Hdr24", "hdr2"), P("out", "Pol32", "opol"), P("in", "interface", "o1"),
             P("out", "interface", "o2"), P("in", "buffer", "b1")]
    nodes = [hdr, pol, {"k": "interface", "name": "IWide", "base": None, "members": [M("wide", wide), M("mixed", mixed), M("narrow", wide[:3] + wide[24:26])]}]
    return {"id": cid, "files": [{"path": "main.idl", "nodes": nodes}], "main": "main.idl", "incdirs": []}
