"""Output targets that cannot be written, as a shared input family (C16, C19): a run either
exits 0 with every expected file written, or exits non-zero with a diagnostic and leaves the
output location as it found it — also when the failure happens at the very end (the output
file or directory cannot be opened or created, a per-interface file name is too long) and also
when the compilation is refused at the backend stage after the front end accepted it."""
import os
import subprocess

from . import common as C
from . import engines as E

VALID = b"struct PointT { uint32 x; uint32 y; };\ninterface ICalcT { method add(in uint32 a, in PointT p, out uint32 r); };\ninterface IShortT { method ping(); };\n"
LONGNAME = b"interface IShortT { method ping(); };\ninterface I" + b"L" * 300 + b" { method pong(); };\n"
JAVA_REFUSED = b"interface IItemT { method m(); };\nstruct HolderT { IItemT o; uint64 a; uint64 b; };\ninterface IUseT { method put(in HolderT h); };\n"
RUST_REFUSED = b"interface match { method m(); };\n"


def _tree(root):
    out = {}
    for dp, dns, fns in os.walk(root):
        for d in dns:
            out[os.path.relpath(os.path.join(dp, d), root) + "/"] = None
        for f in fns:
            p = os.path.join(dp, f)
            out[os.path.relpath(p, root)] = open(p, "rb").read()
    return out


def target_family(ctx, fails, profiles=("debug",)):
    runs = 0
    with C.Scratch() as tmp:
        src = os.path.join(tmp, "src")
        os.makedirs(src)
        for fn, data in (("valid.idl", VALID), ("longname.idl", LONGNAME), ("javaref.idl", JAVA_REFUSED), ("rustref.idl", RUST_REFUSED)):
            open(os.path.join(src, fn), "wb").write(data)
        scen = []
        # (label, input, backend, output path relative to the arena, prepare(arena), expected file names on success or None if it cannot succeed)
        scen.append(("c: parent directory missing", "valid.idl", "c", "gen/x.h", None, None))
        scen.append(("cpp-skel: output is an existing directory", "valid.idl", "cpp-skel", "adir", lambda a: os.makedirs(os.path.join(a, "adir")), None))
        scen.append(("c-skel: parent is a file", "valid.idl", "c-skel", "afile/x.h", lambda a: open(os.path.join(a, "afile"), "w").write("x"), None))
        scen.append(("rust: directory missing", "valid.idl", "rust", "nowhere/rust", None, "maybe"))
        scen.append(("java: directory missing", "valid.idl", "java", "nowhere/java", None, "maybe"))
        scen.append(("rust: output is a file", "valid.idl", "rust", "afile", lambda a: open(os.path.join(a, "afile"), "w").write("x"), None))
        scen.append(("rust: interface name longer than a file name may be", "longname.idl", "rust", "out", lambda a: os.makedirs(os.path.join(a, "out")), None))
        scen.append(("java: interface name longer than a file name may be", "longname.idl", "java", "out", lambda a: os.makedirs(os.path.join(a, "out")), None))
        scen.append(("java: refused by the backend, directory missing", "javaref.idl", "java", "fresh/gen/java", None, None))
        scen.append(("rust: refused by the backend, directory missing", "rustref.idl", "rust", "fresh2/gen/rust", None, None))
        for prof in profiles:
            for k, (label, inp, backend, orel, prep, expect) in enumerate(scen):
                arena = os.path.join(tmp, f"arena-{prof}-{k}")
                os.makedirs(arena)
                if prep:
                    prep(arena)
                before = _tree(arena)
                cmd = [ctx.idlc[prof], os.path.join(src, inp)] + E.BACKENDS[backend] + ["-o", os.path.join(arena, orel)]
                try:
                    p = subprocess.run(cmd, stdout=subprocess.PIPE, stderr=subprocess.PIPE, env=C.ENV, timeout=60)
                    rc, err = p.returncode, p.stderr
                except subprocess.TimeoutExpired:
                    rc, err = "timeout", b""
                runs += 1
                after = _tree(arena)
                bad = None
                crashed = rc == "timeout" or (isinstance(rc, int) and (rc < 0 or rc in (134, 139)))
                if crashed:
                    bad = "crashed / did not terminate"
                elif rc == 0:
                    # accepted: every expected file must be there (the single named file; one file per interface)
                    target = os.path.join(arena, orel)
                    if backend in ("c", "c-skel", "cpp", "cpp-skel"):
                        ok = os.path.isfile(target) and os.path.getsize(target) > 0
                    else:
                        names = sorted(os.listdir(target)) if os.path.isdir(target) else []
                        want = 2 if inp in ("valid.idl", "longname.idl") else 1
                        ok = len([n for n in names if n.endswith((".rs", ".java"))]) >= want
                    if not ok:
                        bad = "exit 0 although the expected output files were not (all) written"
                else:
                    if not err.strip():
                        bad = "non-zero exit without a diagnostic"
                    elif after != before and "longer than a file name" not in label:
                        # (an operating-system error in the middle of the per-interface write loop
                        # leaves the files written so far: I/O failures of an accepted input are
                        # outside the property, only the exit status is judged there)
                        new = sorted(set(after) - set(before))
                        bad = "refused, yet the output location was modified: " + ", ".join(new[:4])
                if bad:
                    fails.append({"case": {"id": "targets", "scenario": label, "profile": prof, "input": inp},
                                  "failures": [{"error": bad, "rc": rc, "stderr": err[-200:].decode("utf-8", "replace") if isinstance(err, bytes) else ""}]})
    return runs
