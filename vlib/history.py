"""Process history as an input family: what a compilation produces must not depend on what the
same process compiled before (build scripts call the library entry point once per IDL file, in
one process; the probe's `serve` loop is such a process). A sequence of file sets that share
names — a struct of another size, a method of the same name with other documentation, an
interface with the same base from an include, the same PATH with other content, a compilation
that fails half-way — is run through one probe process; every step's facts and per-backend
output hashes must equal those of a fresh process given that step alone."""
import os
import subprocess

from bench import idl
from . import common as C


def _p(d, t, n, arr=None):
    return {"dir": d, "type": t, "arr": arr, "name": n}


def _m(name, params, doc=None):
    return {"k": "method", "name": name, "optional": False, "doc": doc, "params": params}


def steps():
    first = {"id": "hist-first", "main": "main.idl", "incdirs": [], "files": [
        {"path": "main.idl", "nodes": [
            {"k": "include", "path": "common.idl"},
            {"k": "struct", "name": "Point", "fields": [{"type": "uint32", "count": 1, "name": "x"}, {"type": "uint32", "count": 1, "name": "y"}]},
            {"k": "struct", "name": "Params", "fields": [{"type": "uint32", "count": 1, "name": "mode"}]},
            {"k": "interface", "name": "IFirst", "base": "IShared", "members": [
                {"k": "error", "name": "FIRST_FAILED"},
                _m("put", [_p("in", "Point", "p"), _p("in", "uint32", "tag")], doc="Puts a point into the FIRST thing."),
                _m("resize", [_p("in", "uint32", "tag"), _p("in", "Params", "p")])]},
            {"k": "interface", "name": "IAlso", "base": "IShared", "members": [
                {"k": "error", "name": "ALSO_FAILED"}, _m("ping", [])]}]},
        {"path": "common.idl", "nodes": [
            {"k": "interface", "name": "IShared", "base": None, "members": [
                {"k": "error", "name": "SHARED_BUSY"}, {"k": "error", "name": "SHARED_DENIED"}, _m("hello", [])]}]}]}
    second = {"id": "hist-second", "main": "main.idl", "incdirs": [], "files": [
        {"path": "main.idl", "nodes": [
            {"k": "include", "path": "common.idl"},
            {"k": "struct", "name": "Point", "fields": [{"type": "uint64", "count": 1, "name": "x"}, {"type": "uint64", "count": 1, "name": "y"}]},
            {"k": "struct", "name": "Params", "fields": [{"type": "uint32", "count": 1, "name": "width"}, {"type": "uint32", "count": 1, "name": "height"}]},
            {"k": "interface", "name": "ISecond", "base": "IShared", "members": [
                {"k": "error", "name": "SECOND_FAILED"}, {"k": "error", "name": "SECOND_LATE"},
                _m("put", [_p("in", "Point", "p"), _p("in", "uint32", "tag"), _p("out", "uint64", "sum"), _p("out", "uint32", "echo")],
                   doc="Puts a point into the SECOND thing."),
                _m("resize", [_p("in", "uint32", "tag"), _p("in", "Params", "p")])]},
            {"k": "interface", "name": "IThird", "base": "ISecond", "members": [
                {"k": "error", "name": "THIRD_FAILED"}, _m("pong", [])]}]},
        {"path": "common.idl", "nodes": [
            {"k": "interface", "name": "IShared", "base": None, "members": [
                {"k": "error", "name": "SHARED_BUSY"}, _m("hello", []), _m("bye", [])]}]}]}
    # refused half-way: the second interface names a type nobody declares (the first one has been
    # numbered by then)
    broken = {"id": "hist-broken", "main": "main.idl", "incdirs": [], "files": [
        {"path": "main.idl", "nodes": [
            {"k": "interface", "name": "IGoodish", "base": None, "members": [
                {"k": "error", "name": "G_ONE"}, {"k": "error", "name": "G_TWO"}, _m("a", []), _m("b", [])]},
            {"k": "interface", "name": "IBroken", "base": None, "members": [
                {"k": "error", "name": "B_ONE"}, _m("c", [_p("in", "NoSuchType", "x")])]}]}]}
    return [("first", first), ("second", second), ("broken", broken), ("second-again", second), ("first-again", first)]


def _ask_fresh(args):
    p = subprocess.run([C.PROBE_BIN] + args, stdout=subprocess.PIPE, stderr=subprocess.DEVNULL, text=True, timeout=120)
    return [l for l in p.stdout.splitlines() if l.strip() and l.strip() != "."]


def history_pass(ctx, fails, hist, what=("facts", "gen")):
    """all steps at ONE path (each step overwrites the files of the one before), through the
    long-lived probe, against a fresh process per step"""
    n = 0
    with C.Scratch() as tmp:
        root = os.path.join(tmp, "src")
        for label, case in steps():
            # same paths, new content
            for dp, _, fns in os.walk(root):
                for fn in fns:
                    os.unlink(os.path.join(dp, fn))
            idl.render_case(case, root)
            for cmd in what:
                args = ["facts", "cli", "0", root, case["main"]] if cmd == "facts" else ["gen", "0", root, case["main"]]
                warm = [l for l in ctx.probe.ask(" ".join(args)) if l.strip()]
                fresh = _ask_fresh(args)
                n += 1
                if C.canon_facts(warm) != C.canon_facts(fresh):
                    a, b = C.diff_facts(C.canon_facts(warm), C.canon_facts(fresh))
                    fails.append({"case": {"id": "history", "step": label, "sequence": [l for l, _ in steps()],
                                           "idl": idl.render_file(case["files"][0])[:500]},
                                  "failures": [{"error": "the result of a compilation depends on what the same process compiled before "
                                                "(same request, fresh process: different " + ("facts" if cmd == "facts" else "output bytes") + ")",
                                                "only_in_warm_process": a[:4], "only_in_fresh_process": b[:4]}]})
    hist["history_steps"] = hist.get("history_steps", 0) + n
    return n
