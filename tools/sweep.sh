#!/bin/bash
# tools/sweep.sh [log] — run every seeded change through its own property's quick check, one
# after the other (each run applies the patch to /repo, checks, and undoes it); never run
# anything else that touches /repo at the same time. Rebuilds the unchanged binaries at the end.
cd "$(dirname "$0")/.."
log=${1:-.cache/sweep.log}
: > "$log"
for d in $(ls seeded | grep -v json); do
  out=$(python3 tools/seedtest.py seeded/$d --no-rebuild 2>&1 | tail -1)
  echo "$d $out" >> "$log"
done
git -C /repo checkout -- .
python3 - <<'PY'
import sys
sys.path.insert(0, ".")
from vlib import common as C
C.build_idlc("debug"); C.build_probe()
PY
grep -v "detected by: \['C" "$log"
