#!/usr/bin/env python3
"""Run the registered quick checks against a batch of harmless (property-preserving) changes.

    tools/benigntest.py benign/<id> [benign/<id> ...] [--props C01,C02]

Applies every patch of the batch to /repo's working tree (those that do not apply on top of
the others are reported and left out), runs `./check <prop>` for all claimed properties (or
the ones given), undoes everything and records the outcome in each directory's result.json.
A check that reports a violation on a harmless change is a false alarm of the check — unless
the correspondence legitimately broke (the replay then names the obligation or disagreement
and ends `no-failing-input-found`), which the brief allows but which is still recorded.
Never commits anything in /repo; never run anything else that touches /repo meanwhile."""
import argparse
import json
import os
import subprocess
import sys
import time

V = os.path.dirname(os.path.dirname(os.path.abspath(__file__)))
REPO = "/repo"


def sh(cmd, **kw):
    return subprocess.run(cmd, stdout=subprocess.PIPE, stderr=subprocess.STDOUT, text=True, **kw)


def clean():
    return sh(["git", "-C", REPO, "status", "--porcelain"]).stdout.strip() == ""


def main():
    ap = argparse.ArgumentParser()
    ap.add_argument("dirs", nargs="+")
    ap.add_argument("--props")
    ap.add_argument("--seed", default="1")
    a = ap.parse_args()
    manifest = json.load(open(os.path.join(V, "MANIFEST.json")))
    props = a.props.split(",") if a.props else [c["property_id"] for c in manifest["checks"]]
    if not clean():
        sys.exit("/repo working tree is not clean; refusing")
    applied, skipped = [], []
    for d in a.dirs:
        p = sh(["git", "-C", REPO, "apply", os.path.join(os.path.abspath(d), "patch.diff")])
        (applied if p.returncode == 0 else skipped).append(os.path.abspath(d))
    print("applied:", [os.path.basename(d) for d in applied], "skipped:", [os.path.basename(d) for d in skipped])
    res = {"applied_to": sh(["git", "-C", REPO, "rev-parse", "HEAD"]).stdout.strip(), "batch": [os.path.basename(d) for d in applied],
           "seed": a.seed, "checks": {}}
    try:
        for prop in props:
            t0 = time.time()
            env = dict(os.environ, VERIF_SEED=a.seed, VERIF_TIER="quick")
            q = sh([os.path.join(V, "check"), prop, "--tier", "quick"], cwd=V, env=env)
            lines = [l for l in q.stdout.splitlines() if l.startswith("VIOLATION")]
            rec = {"rc": q.returncode, "violation_lines": lines[:3], "wall_s": round(time.time() - t0, 1),
                   "tail": q.stdout.splitlines()[-3:] if q.returncode not in (0, 1) else []}
            if lines and "replay=" in lines[0]:
                rp = lines[0].split("replay=")[1].split()[0]
                try:
                    r = json.load(open(rp))
                    rec["replay_kind"] = r.get("kind")
                    rec["replay_head"] = json.dumps(r.get("first") or r.get("first_disagreement") or {})[:800]
                    rec["broken_obligations"] = r.get("broken_obligations")
                except Exception as e:  # noqa
                    rec["replay_head"] = f"unreadable: {e}"
            res["checks"][prop] = rec
            print(prop, "rc", q.returncode, lines[:1], flush=True)
    finally:
        sh(["git", "-C", REPO, "checkout", "--", "."])
        sh(["git", "-C", REPO, "clean", "-fdq"])
        if not clean():
            print("WARNING: /repo not clean after undo:", sh(["git", "-C", REPO, "status", "--porcelain"]).stdout)
    res["alarms"] = sorted(k for k, v in res["checks"].items() if v["rc"] != 0)
    for d in applied:
        json.dump(res, open(os.path.join(d, "result.json"), "w"), indent=1, sort_keys=True)
    print("alarms:", res["alarms"])


if __name__ == "__main__":
    main()
