#!/usr/bin/env python3
"""Rewrites the table of section 13.8 of DESIGN.md from seeded/*/{meta,result}.json and
seeded/NOTES.json (which records what had to be strengthened for a change that was missed at
first)."""
import json
import os
import re

V = os.path.dirname(os.path.dirname(os.path.abspath(__file__)))
notes = json.load(open(os.path.join(V, "seeded", "NOTES.json")))
rows = []
for d in sorted(os.listdir(os.path.join(V, "seeded"))):
    p = os.path.join(V, "seeded", d)
    if not os.path.isdir(p):
        continue
    m = json.load(open(os.path.join(p, "meta.json")))
    r = json.load(open(os.path.join(p, "result.json"))) if os.path.exists(os.path.join(p, "result.json")) else {"checks": {}, "detected_by": []}
    files = m["files_changed"] if isinstance(m["files_changed"], list) else [m["files_changed"]]
    mech = re.sub(r"\s+", " ", m["mechanism"]).replace("|", "/")
    if len(mech) > 230:
        mech = mech[:227] + "..."
    det = []
    for k, v in sorted(r["checks"].items()):
        if v["rc"] == 1 and v["violation_lines"]:
            how = "failing input" if "no-failing-input-found" not in v["violation_lines"][0] else "correspondence/proof broken, no failing input"
            det.append(f"{k} ({how})")
    rows.append(f"| {d} | {', '.join(os.path.basename(f) for f in files)} | {mech} | {'; '.join(det) or 'NOT DETECTED'} | {notes.get(d, 'caught as built')} |")
table = "\n".join(["| id | file | mechanism (as described by its author) | quick check(s) that report it | needed strengthening? |", "|---|---|---|---|---|"] + rows)
path = os.path.join(V, "DESIGN.md")
s = open(path).read()
a, b = "<!-- SEEDTABLE-BEGIN -->", "<!-- SEEDTABLE-END -->"
s = s[:s.index(a) + len(a)] + "\n" + table + "\n" + s[s.index(b):]
open(path, "w").write(s)
print(len(rows), "rows")
