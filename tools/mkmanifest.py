#!/usr/bin/env python3
"""Regenerates /verif/MANIFEST.json from the table below (run after claiming a property)."""
import json
import os

V = os.path.dirname(os.path.dirname(os.path.abspath(__file__)))
TB = ("Trusted: Lean 4.33 kernel with axioms propext/Classical.choice/Quot.sound only (audited by #print axioms on every run; "
      "no sorry/native_decide/bv_decide); the probe and the text extractors; agreement of the hand-written Lean model with the code "
      "is exhaustive for the tabulated finite functions (regenerated and kernel-checked each run) and sampled elsewhere.")
T_IND = "Lean 4 proof (induction) + regenerated decide tables + differential correspondence with the real pipeline"

CLAIMED = {
 "C01": dict(engine="lean+bench 3x3", technique="Lean 4 proof (round trip of the reference encoder/decoder along the shared walk, for all parameter lists and valuations) + execution of the real generated stubs x skeletons",
   text="Partial. Lean 4: decode_encode: for every event list (any parameter multiset, order and bundling), either direction and every valuation of the declared shapes, decoding the encoded payload along the same walk returns exactly the encoded values (bundles are split by member sizes, embedded objects follow their buffer, object arrays are taken by length); with C02's section-order theorem and injectivity of the counts word this makes a counts-faithful transport the identity on canonical envelopes. Refuted for object-bearing structs inside bundles. "
        "Tie and oracle: the real idlc output for C, C++ and Rust is compiled with upstream's flags and linked with generated callers/implementations into one process; every method of generated file sets is called for 3 valuations through all 9 pairings over a recording copying transport; the implementation must see the caller's inputs and the caller the implementation's outputs, lengths and status; every envelope and reply is compared with the Lean reference encoder. Four classes of genuine defects are known findings, re-confirmed on every run.",
   note=TB + " The per-backend visitors (slot writes/reads in C, C++, Rust text) are tied by executing the real generated code, not modelled statement by statement; gcc/g++/rustc and the hand-written runtime headers under /repo/tests are trusted."),
 "C03": dict(engine="lean+bench 3x3", technique="Lean 4 proof (bundle membership, order, stability, size, position) + byte comparison of real envelopes with the Lean reference encoder",
   text="Partial. Lean 4: bundle members are exactly the small by-value data parameters of the direction; sizes never increase along the bundle; members of equal size keep declaration order (stability); the bundle buffer is the plain concatenation of member images and its length is the sum of the member sizes; the input bundle exists iff there are two or more smalls and is then the very first argument. Refuted: object-bearing small structs inside a bundle (handle bytes in the data buffer). "
        "Tie/oracle: the bytes every real stub puts into its input buffers and every real skeleton returns in its output buffers (all 9 pairings) are compared with the reference encoding computed by the Lean driver from the same values (there is no second hand-written encoder).",
   note=TB + " The per-backend visitors (slot writes/reads in C, C++, Rust text) are tied by executing the real generated code, not modelled statement by statement; gcc/g++/rustc and the hand-written runtime headers under /repo/tests are trusted."),
 "C04": dict(engine="lean+bench perturbed envelopes (ASan/UBSan)", technique="Lean 4 proof (skeleton guard model: dispatch, counts word, size guards, guard indices in bounds) + perturbed envelopes delivered to the real skeletons under sanitizers",
   text="Lean 4: in the skeleton model an envelope whose counts word differs from the method's, or with a guarded (fixed-size) slot of a different size, is never served; an op-code of neither the interface nor its ancestors and an optional method without implementation give INVALID; conversely everything served carried exactly the method's counts word and sizes; every size guard reads a slot index below the number of slots of the method. "
        "Tie/oracle: for each method and each of the C, C++ and Rust skeletons (ASan/UBSan build) the well-formed envelope recorded from a real stub call is perturbed (every counts nibble +-1, 0, 15; same-total shifts and swaps between classes; every guarded size 0/n-1/n+1/2^31; foreign, out-of-range and modifier-bit ops; combined) and delivered in an exact-size argument array with exact-size buffers; status, implementation entry and sanitizer faults are observed and compared with the model; a well-formed follow-up call to the same object must be served normally. "
        "One genuine defect found this way was repaired (Rust skeleton built a slice from a null argument pointer).",
   note=TB + " The per-backend visitors are tied by executing the real generated code, not modelled statement by statement; gcc/g++/rustc, sanitizers and the runtime headers under /repo/tests are trusted."),
 "C05": dict(engine="lean+bench 3x3", technique="Lean 4 proof (proxy ownership discipline of the C++ backend incl. arrays of any length) + counting objects through the real generated code",
   text="Partial. Lean 4: in the model of proxy_base.hpp (adopt / extract / consume / destructor) the C++ skeleton's wrap-call-extract sequence for input objects (single and arrays of any length) and its output-proxy sequence issue no retain and no release, and the stub adopts returned objects on success only; a missing extract is shown to release the caller's object. C and Rust visitors perform no count operation (plain copies, ManuallyDrop / take). "
        "Tie/oracle: harness-owned counting objects (null, non-null, aliased; direct, in arrays, in structs) are passed through all 9 pairings for success and error returns; after caller and implementation drop what they hold every count must be back at its start and no output object may be adopted on a failed call.",
   note=TB + " The per-backend visitors (slot writes/reads in C, C++, Rust text) are tied by executing the real generated code, not modelled statement by statement; gcc/g++/rustc and the hand-written runtime headers under /repo/tests are trusted."),
 "C02": dict(engine="lean+tables+facts+cli", technique=T_IND,
   text="Lean 4: the unrestricted statement is refuted from concrete witnesses (OO before OI; embedded objects inside buffer sections; "
        "uncounted object slot of small object structs; no <=15 bound) and a partial theorem proves BI*BO*OI*OO* order for every parameter "
        "list without embedded objects and without the in-object-array/out-object mix, plus injectivity of the counts word on counts <= 15. "
        "Tie: exhaustive Param::cmp / counter tables (kernel-checked), E1 facts (counts, bundles, events) bounded-exhaustive over all "
        "<=2-letter (quick) / <=3-letter (thorough) methods and random long signatures, and the argument arrays and counts words found in "
        "the emitted C, C++ and Rust stubs and skeletons compared with an independent evaluation of the marshalling rule. "
        "The four refutations are known findings re-confirmed on the real compiler on every run.",
   note=TB + " The envelope is observed in emitted text (argument-array initialisers, counts words); the dynamic envelope at the transport is covered by the bench-based checks."),
 "C09": dict(engine="lean+facts+cli+lib", technique="Lean 4 proof (per-pass soundness lemmas composed along the driver, DFS invariant) + refutation witnesses by decide + differential correspondence on a malformed stream",
   text="Lean 4: compile_sound proves, for both entry points, that an accepted compilation has distinct parameter names in main-file interfaces, "
        "satisfies the no-padding alignment rule for every struct reachable from a main-file struct, and that every main-file interface flattened over its ancestor chain "
        "has distinct const-or-error names, distinct method names and obeys all documented object-array/data-array rules; toposort success implies acyclicity for every hash iteration order. "
        "The unrestricted statement is refuted (decide on the model's compile) for declarations in included files the passes never look at and for const/struct name clashes; these are known findings re-confirmed on the real compiler. "
        "Tie: malformed stream (20 injectors: one violation of one rule at a random position of a valid generated file set) with the verdict of the real idlc process, of idlc::Language::generate and of the staged replay compared with the model. "
        "Three genuine defects found this way were repaired in /repo (fix: commits, see known_findings.jsonl).",
   note=TB + " Grammar-level violations are decided by pest (the model only knows that a file fails to parse); constant ranges by the Literal model."),
 "C10": dict(engine="lean+facts+cli", technique="Lean 4 proof (converse lemmas for the local passes) + differential correspondence on a valid stream with permutation / redistribution",
   text="Partial. Lean 4: the duplicate-parameter pass accepts whenever names are distinct; checkFunc_iff: the interface verifier's per-method decision is exactly the documented rule set (it refuses nothing the documentation allows); "
        "the backend's fatal paths cannot fire when counts fit the counts word; the DFS behind every cycle pass fails ONLY on a real cycle and the model's fuel is never the reason (toposort_err_cycle, toposort_ok_iff_acyclic), so Cycles::run_pass accepts every acyclic struct/interface graph (cyclesPass_complete, cyclesPass_cycle_iff). Acceptance of whole file sets (symbol lookup across the include closure, the composition of all passes) is tied, not proved: valid generated file sets over the full grammar "
        "are run through the real binary for 5-6 backends under random flag sets, as generated, with declarations permuted, and with all declarations merged into the main file; every variant must exit 0 with output, and the model must agree.",
   note=TB + " Completeness of the composition of all passes on whole file sets is sampled, not proved."),
 "C11": dict(engine="lean+real compilers", technique="Lean 4 for the two pieces that are logic (definition-before-use order, C++ base list); everything else CHECKED by gcc/clang/g++/clang++/rustc/javac on the real output (not a proof)",
   text="Partial by construction: the static semantics of C, C++, Rust and Java are outside any model here. Lean 4: the C++ interface class names exactly its direct base for every hierarchy depth (after the fix); definition-before-use is refuted (the front end accepts any declaration order, emission follows source order) and holds on dependency-ordered input. "
        "Checked, not proved: generated accepted file sets are emitted for C, C++ and Rust (stub and skeleton, typed and untyped) and compiled with gcc/g++ and clang/clang++ under upstream's flags together with conforming user units that include stub and skeleton of every file (generated headers including the generated headers of their includes), Rust through rustc in upstream's crate layout, Java (supported subset) through javac against the stand-in API. Six classes of genuine defects are known findings with witnesses; one was repaired (C++ base list at depth >= 3).",
   note="Trusted: the target compilers as the definition of 'compiles warning-clean'; the bench's generated user units (a mistake there shows up as a compile error and would be reported). " + TB),
 "C12": dict(engine="lean+facts+cli", technique="Lean 4 proof (invariant over the depth-first loader, DFS acyclicity theorem) + differential correspondence on random include graphs with file-system oracle tables",
   text="Lean 4: resolve returns the first match in search order for bare names (with the none-iff characterisation) and resolves paths with a directory part relative to the includer only; "
        "loadAll_ok: whenever the loader succeeds the resolved include graph it built is acyclic (for every hash iteration order), no file was loaded twice and the main file is loaded; a detected cycle is never dropped. "
        "The cycle test flags an include edge exactly when it closes a cycle, independent of table order (hasCycle_iff, include_cycle_flag_iff, hasCycle_order_independent). "
        "Tie: random include graphs over up to 5 directories (same name in several directories, bare/./../nested spellings, self-includes and cycles of any length, unresolvable names, symlinked directories, permuted and re-spelled -I lists) "
        "materialised on disk; the model's two file-system oracle tables are read from the real tree; verdict, load set and origin of every visible declaration of the real pipeline are compared with the model and with an independent evaluation of the resolution rule.",
   note=TB + " canonicalize()/exists() are modelled by oracle tables read from the real file system; termination of the model's loader is by fuel |files|+2 (sufficiency of that fuel is checked by correspondence, not proved); include strings that are absolute paths are not modelled."),
 "C13": dict(engine="lean+facts+cli", technique="Lean 4 proof (order-independence of the struct verifier over dependency-first orders; DFS theorem for every iteration order) + repeated/relocated/re-spelled runs of the real binary",
   text="Lean 4: structVerifier_order_independent / _verdict_independent: the struct verifier's verdict and computed sizes do not depend on which dependency-first order the hash-table iteration produced; "
        "toposort succeeds iff the graph is acyclic, hence the verdict of every cycle pass is the same for every iteration order and insertion history (toposort_ok_iff_acyclic, hasCycle_order_independent); the model's compile takes file identities and oracle tables only, so no path reaches its result. "
        "Tie: every accepted generated file set (plus graphs sized around hash-table growth boundaries) is compiled 8 times per backend in fresh processes (fresh SipHash keys): relative from the root (3x), absolute from /, from a relocated copy, "
        "with redundant components, through a symlink, relative from the parent; names and bytes of all outputs are compared; probe facts at two locations are compared with each other and with the model.",
   note=TB + " Determinism of emission order inside the code generators (iteration over source-ordered node lists) is observed by byte comparison, not proved."),
 "C14": dict(engine="lean+pest tree+in-process generators+cli", technique="Lean 4 proof for the marking block (all marking texts) + exhaustive per-program trivia sweep against pest and the real generators",
   text="Partial. Lean 4: for EVERY marking text the C/C++/Rust marking block consists of blank lines and lines starting with `//` only (so it lexes as comments, whatever the text contains), with the str::lines() model; the Java block is refuted for markings containing `*/` (known finding). For EVERY documentation text without `*/` (the grammar admits no other), every indentation, asterisk style and byte content, the comment emitted for C/C++/Java closes only with its own terminator (renderDoc_closes_only_at_end: the block minus its last character contains no `*/`) and every line emitted for Rust starts with `///` and has one newline, its last character (rust_line_is_comment, rust_line_one_newline) — model of documentation.rs over bytes, tied on every run: the real output of C, C++, Rust and Java for every documentation variant (incl. multi-byte characters at every column) must contain the model's rendering. "
        "Not modelled (decided by pest and by pst.rs's decoders): trivia invariance. It is tied exhaustively per program: every trivia kind (space, tab, newline, // and /* */ comments, non-ASCII) is inserted at EVERY token gap in turn; placements the current grammar rejects (asked from a pest parser derived from /repo's grammar file) are not counted; "
        "all 8 outputs of the real generators must equal the baseline. Documentation comments before every method (outputs equal after comment stripping), 4 marking texts x 4 backends (output = independently rendered block + unmarked output), typed vs untyped C output after renaming object types. "
        "Three genuine defects found this way were repaired in /repo (comments inside declarations, documentation lost across an ordinary comment, const dropped by --no-typed-objects).",
   note=TB + " pest's PEG engine and the positional decoders of pst.rs are observed, not modelled; the documentation renderer is compared after comment stripping only."),
 "C15": dict(engine="lean+facts+cli", technique="Lean 4 proof (prefix stability of the numbering walk; monotonicity of type expansion under symbol-table extension) + differential correspondence over random append-only histories",
   text="Lean 4: numberMembers_append / append_to_interface: numbering an interface with members appended numbers every pre-existing member of that interface and of its ancestors exactly as before (op-codes, error values, expanded parameter lists) and only adds members after them; "
        "plans_preserved: op-code, counts word, bundles and slot sections of old methods are unchanged; expandTy_extends: adding declarations of fresh names anywhere leaves every expanded type unchanged. "
        "Tie: random append-only histories of 3-5 revisions; op/err/method facts of the real pipeline and the generated C stub, C skeleton and Rust stub fragments of every pre-existing method are compared across revisions, and the facts with the model. Interoperation (old_call_same_dispatch, new_method_unknown_to_old): a new-revision skeleton dispatches every envelope of an old method exactly as the old skeleton, and an old-revision skeleton answers a method appended later with INVALID, never with another method. The op-code macros of the C stub are evaluated by the C compiler for every revision.",
   note=TB + " Interoperation of old stubs with new skeletons at run time follows from identical fragments + C01; it is not executed here."),
 "C16": dict(engine="lean+cli debug/release", technique="Lean 4 proof for the decision logic (array bounds, counter ranges, wrap = checked when values fit) + differential debug/release execution on generated, mutated and boundary inputs",
   text="Partial by construction. Lean 4: accepted array bounds lie in 1..=65535 (one decoder for both profiles), the u8 argument counters of an accepted method stay below 256 (interface verifier bounds each class by 15), wrapping and checked arithmetic agree when values fit; a concrete struct whose expanded size exceeds 2^64 is exhibited (known finding: debug panics, release wraps). "
        "Not expressible in the model and explored instead: memory faults, stack depth, wall-clock. Valid generated programs (6 backends), byte-level mutants and a fixed list of special inputs (empty, invalid UTF-8, NUL, 200k-char identifiers, 4000 structs, bounds 0/65536/10^20, nesting depth 32, diamond depth 12, 5000 parameters) run on the debug AND release binaries built from the working tree under stack/address-space/time limits; exit status, signals, stderr and output bytes compared. "
        "Two genuine defects found this way were repaired in /repo (array bounds outside 1..=65535 hit unwrap_unchecked in release; unbounded u8 counters).",
   note=TB + " Termination of the model's fuelled recursions on accepted inputs is not proved; undefined behaviour cannot be observed reliably, only its symptoms (divergent exit status or bytes)."),
 "C17": dict(engine="lean+tables+cli+compiled probes", technique="Lean 4 proof (literal semantics per language) + kernel-checked regenerated table of the real range check + compiled value/type probes",
   text="Lean 4: the model of Primitive::new agrees with the real range check on the whole regenerated boundary table (297 rows: each type x {min-1,min,min+1,-1,0,1,max-1,max,max+1} x {decimal, hex, negative hex, leading zeros, fractional}, floats around the overflow thresholds) and equals the mathematical in-range predicate there; accepts_iff_in_range: for EVERY integer literal of the grammar (-?0xH+ | -?D+, any length) and every integer type the model's range check accepts exactly when the mathematical value lies in the type's range (and an unsigned type sees no minus sign); "
        "every backend reading the verbatim literal evaluates it to its mathematical value when it has no leading zero (Rust: always); refuted for leading zeros (octal in C/C++/Java). "
        "Tie: exit status of the real binary for boundary literals at file and interface scope with and without --allow-undefined-behavior; every emitted constant declaration is compiled alone with gcc, g++, rustc and javac in a probe printing its value and type. Six classes of genuine defects are known findings.",
   note=TB + " C/C++ literal typing rules, rustc and javac are the reference semantics (observed, not modelled beyond the radix rule)."),
 "C19": dict(engine="lean+facts+cli", technique="Lean 4 proof (effect ordering of the driver model; key-set characterisation of the multi-file generators) + directory snapshots around real runs",
   text="Lean 4: in the driver model a rejected compilation returns the output directory unchanged and an accepted one writes exactly writtenFiles with this run's content and leaves every other entry untouched; C/C++ write exactly the named file; multiFiles_keys: the multi-file generators create exactly the base module plus the keys of the interfaces; one-file-per-interface is refuted for Rust when names collide after case folding (known finding). "
        "Tie: the file names produced by the real Rust and Java generators are compared with the model for every case; accepted and rejected runs (10 rejection stages) for 6 backends into directories with pre-existing files; names, sizes, bytes and mtimes snapshotted before and after; banner/marking placement and truncation checked.",
   note=TB + " The ordering 'all passes and generation before the first open' is read off main.rs into the model and observed by the snapshots; I/O failures are out of scope."),
 "C06": dict(engine="lean+tables+facts+compiled layout probes", technique="Lean 4 proof (verifier rule implies natural layout = packed layout) + sizeof/offsetof probes under 5 toolchains",
   text="Lean 4: layout_is_packed: for every member list that satisfies the struct verifier's rule (each packed offset divisible by the verifier's alignment, total divisible by the largest) and whose target alignments divide the verifier's (primitives equal, objects 8 | 16, nested structs equal), the SysV natural layout has exactly the packed offsets and sizeof equals the summed member sizes; with C09.structVerifier_sound this covers every struct reachable from a main-file struct. Refuted for structs the passes never verify (included files): known finding. "
        "Tie: primitive sizes/alignments and the object slot size are regenerated tables (kernel-checked); struct sizes/classes of the real MIR are compared with the model; the types emitted by the real compiler for C, C++ and Rust are compiled with gcc, clang, g++, clang++ and rustc into probes printing sizeof/offsetof of every struct and member, for generated valid structs and for random unrepaired structs (whatever is accepted must lay out without padding).",
   note=TB + " The SysV x86-64 layout algorithm (cLayout) is a model of the target compilers, validated by the probes on every struct seen; other targets/ABIs are out of scope."),
 "C07": dict(engine="lean+tables+facts+cli", technique=T_IND,
   text="Lean 4 theorems (unbounded in hierarchy depth, members per level and interleaving) that the numbering walk hands out op-codes 0,1,2,... in ancestor-first declaration order, unique, <= 0x3FFF, and rejects chains with more than 0x4000 methods; tied to the code by kernel-checked regenerated tables (boundary 16383/16384/16385) and by sampled correspondence of the real pipeline's MIR facts with the model; the emitted numbers of C, C++, Rust and Java stubs/skeletons (incl. dispatch tables of derived interfaces) are extracted from the real compiler's output and compared with an oracle computed from the declarations; the 0x4000/0x4001 boundary is run through the real binary.",
   note=TB),
 "C08": dict(engine="lean+tables+facts+cli", technique=T_IND,
   text="Lean 4 theorems that error values are 10,11,12,... in ancestor-first declaration order, unique, that the k-th error has value 10+k and that a derived interface re-exports its base's errors at the same positions; tied to the code as for C07; emitted constants of all four backends extracted and compared with an oracle computed from the declarations.",
   note=TB),
 "C18": dict(engine="lean+java bench+facts", technique="Lean 4 proof (partition lengths of the reference encoder equal the counts; round trip of the reference encoder) + differential correspondence: generated Java Proxy/MinkObject executed (javac/java) against the reference encoder and the real counts",
   text="Partial: the Java generator's text is not modelled; what is proved is about the reference encoder the Java arrays are compared with. Lean 4: for every parameter list without small object-bearing structs, the reference encoding has exactly counts.bi input buffers, counts.bo output buffers, counts.oi input objects and counts.oo output objects (java_partition_lengths, via counts_eq_sections: the counts word equals the class histogram of the slot sections), and decoding the encoding returns the caller's values (C01.decode_encode). "
        "Tie: generated accepted methods over the constructs the Java backend handles are emitted by the real idlc --java, compiled with javac against a minimal stand-in of the Mink Java runtime API, and driven Proxy -> recording copying transport -> MinkObject -> scripted implementation; per call the lengths of bi/boSizes/oi/oo are compared with the counts of the real C-family pipeline, every bi/bo byte string and oi/oo token list with the Lean reference encoder, delivered inputs and returned outputs/status with the caller's. "
        "Four defects found this way were repaired in /repo (primitive arrays in both directions, nested struct input, a second out bundle; their inputs now run as must-pass regression cases); three constructs inside the property's quantifier on which the generated Java still fails (struct arrays in either direction, fixed-array struct members) are known findings, each re-confirmed by a witness on every run.",
   note="Trusted: javac/java 17, the stand-in runtime API under bench/java-runtime (IMinkObject, JMinkObject, MinkProxy: only the members the generated code refers to), the bench's generated Java driver. " + TB),
 "C20": dict(engine="lean+concurrency bench", technique="Lean 4 proof (inductive invariant of a transition system over all interleavings) + trace validation of real multi-threaded histories against the model + generated-text scan",
   text="Partial. Lean 4, for EVERY schedule of the model (any number of threads, handles, clones, sends, scoped lends, calls and drops; induction over action lists): at most one method body runs at a time and a body is entered only when none runs (mutual_exclusion, enter_excludes); every body reads exactly the accumulated effect of all bodies completed before it (observes_completed); the implementation is dropped at most once, only after the count reached zero, never while a handle is alive, a call is pending, in its body or returning (not_dropped_while_in_use, alive_while_referenced), and exactly once when all handles are gone (dropped_after_last_release); the count never underflows (release_enabled). "
        "The model's steps are the atomic actions of tests/src/object/wrapper.rs (fetch_add / fetch_sub, free on 1), tests/src/object/mod.rs (retain on clone, release on drop) and the generated skeleton arm (body under the wrapper's mutex); sequential consistency is ASSUMED. "
        "Tie: real histories (generated Rust for two interfaces incl. inheritance + /repo's runtime, 1-32 OS threads, seeded scripts, concurrent use of one lent handle, contended last release) must be behaviours of the model (Lean driver replay) and pass an independent reference checker; a patched skeleton without the lock must be rejected in the same run (negative control); every generated method arm of random generated interfaces must call the implementation under `(*cx).inner.lock()` and wrapper.rs must use single atomic RMW operations with at least AcqRel ordering on release (text scan). "
        "What no executable model here exhibits: weak-memory reorderings, and interleavings the OS scheduler did not produce (they are covered by the theorem only through the model).",
   note="Trusted: the stress program and its event placement (bench/conc/main.rs.tmpl, bench/NOTES_conc.md), the OS scheduler as the source of interleavings, the text scan's regular expressions. Finding recorded in DESIGN.md: the generated From<T> does not require T: Send although the wrapper asserts Send/Sync. " + TB),
}

PENDING_REASON = "check under construction in this session; will be claimed when theorem file, tie and evidence exist"


def main():
    props = [json.loads(l) for l in open(os.path.join(V, "properties.jsonl"))]
    extra = {}
    p = os.path.join(V, "tools", "claimed_extra.json")
    if os.path.exists(p):
        extra = json.load(open(p))
    claimed = dict(CLAIMED)
    claimed.update(extra)
    checks = []
    for pid in sorted(claimed):
        c = claimed[pid]
        checks.append({
            "property_id": pid,
            "quick_cmd": f"./check {pid} --tier quick",
            "thorough_cmd": f"./check {pid} --tier thorough",
            "evidence_file": f"evidence/{pid}.json",
            "replay_cmd_template": f"./check {pid} --replay {{path}}",
            "engine": c["engine"],
            "level_claimed": {"category": "proof", "text": c["text"], "design_ref": f"DESIGN.md section 6 ({pid})"},
            "level_note": c["note"],
            "technique": c["technique"],
        })
    na = [{"property_id": p["id"], "reason": PENDING_REASON} for p in props if p["id"] not in claimed]
    m = {"version": 1, "setup_cmd": "./setup.sh",
         "hooks": {"guard": "quic_mink_idl_compiler_verif",
                   "enable": "RUSTFLAGS='--cfg quic_mink_idl_compiler_verif' (no hook is needed by the current checks: the probe links /repo's crates through their public API)",
                   "baseline_off_cmd": "cd /repo && cargo test --workspace --no-fail-fast --offline",
                   "source_commits": [], "add_only": True},
         "engines": [
             {"name": "lean", "path": "lean/", "serves_properties": sorted(claimed), "kind_free_text": "Lean 4 model (MinkModel) + theorems (MinkProofs) + driver exe"},
             {"name": "probe", "path": "probe/", "serves_properties": sorted(claimed), "kind_free_text": "Rust crate linked against /repo's crates: facts of the real pipeline, regenerated tables"},
             {"name": "bench", "path": "bench/", "serves_properties": [], "kind_free_text": "generated-code execution harness (C/C++/Rust stubs x skeletons through a recording transport; Java; concurrency stress)"}],
         "checks": checks, "not_applicable": na,
         "notes": "see DESIGN.md; every check rebuilds the probe and idlc from /repo's working tree (cargo fingerprints) and re-checks the Lean obligations on every run"}
    json.dump(m, open(os.path.join(V, "MANIFEST.json"), "w"), indent=1)
    print("claimed:", sorted(claimed))


if __name__ == "__main__":
    main()
