#!/usr/bin/env python3
"""Run the registered checks against one seeded change.

    tools/seedtest.py seeded/<id> [--props C01,C02 | --all] [--tier quick]

Applies seeded/<id>/patch.diff to /repo's working tree (git apply), runs `./check <prop>`
for the property the change was seeded for (and any others asked for), undoes the change
(git apply -R, then git checkout -- .), verifies /repo is clean again and records the
outcome in seeded/<id>/result.json. Never commits anything in /repo."""
import argparse
import json
import os
import subprocess
import sys
import time

V = os.path.dirname(os.path.dirname(os.path.abspath(__file__)))
REPO = "/repo"


def sh(cmd, **kw):
    return subprocess.run(cmd, stdout=subprocess.PIPE, stderr=subprocess.STDOUT, text=True, **kw)


def clean():
    return sh(["git", "-C", REPO, "status", "--porcelain"]).stdout.strip() == ""


def main():
    ap = argparse.ArgumentParser()
    ap.add_argument("dir")
    ap.add_argument("--props")
    ap.add_argument("--all", action="store_true")
    ap.add_argument("--tier", default="quick")
    ap.add_argument("--seed", default="1")
    ap.add_argument("--no-rebuild", action="store_true", help="skip the rebuild of idlc and probe after the undo (sweeps: the next run rebuilds anyway; rebuild once at the end)")
    a = ap.parse_args()
    d = os.path.abspath(a.dir)
    meta = json.load(open(os.path.join(d, "meta.json")))
    manifest = json.load(open(os.path.join(V, "MANIFEST.json")))
    claimed = [c["property_id"] for c in manifest["checks"]]
    props = a.props.split(",") if a.props else (claimed if a.all else [meta["property"]])
    if not clean():
        sys.exit("/repo working tree is not clean; refusing")
    patch = os.path.join(d, "patch.diff")
    p = sh(["git", "-C", REPO, "apply", patch])
    if p.returncode != 0:
        sys.exit("patch does not apply: " + p.stdout)
    res = {"applied_to": sh(["git", "-C", REPO, "rev-parse", "HEAD"]).stdout.strip(), "tier": a.tier, "seed": a.seed, "checks": {}}
    try:
        for prop in props:
            t0 = time.time()
            env = dict(os.environ, VERIF_SEED=a.seed, VERIF_TIER=a.tier)
            q = sh([os.path.join(V, "check"), prop, "--tier", a.tier], cwd=V, env=env)
            lines = [l for l in q.stdout.splitlines() if l.startswith("VIOLATION")]
            res["checks"][prop] = {"rc": q.returncode, "violation_lines": lines[:3], "wall_s": round(time.time() - t0, 1),
                                   "tail": q.stdout.splitlines()[-3:] if q.returncode not in (0, 1) else []}
            rp = None
            if lines and "replay=" in lines[0]:
                rp = lines[0].split("replay=")[1].split()[0]
            if rp and os.path.exists(rp):
                try:
                    r = json.load(open(rp))
                    first = r.get("first") or r.get("first_disagreement") or {}
                    res["checks"][prop]["replay_kind"] = r.get("kind")
                    res["checks"][prop]["replay_head"] = json.dumps(first)[:600]
                    res["checks"][prop]["broken_obligations"] = r.get("broken_obligations")
                except Exception as e:  # noqa
                    res["checks"][prop]["replay_head"] = f"unreadable: {e}"
            print(prop, "rc", q.returncode, lines[:1])
    finally:
        sh(["git", "-C", REPO, "apply", "-R", patch])
        sh(["git", "-C", REPO, "checkout", "--", "."])
        if not clean():
            print("WARNING: /repo not clean after undo:", sh(["git", "-C", REPO, "status", "--porcelain"]).stdout)
        # leave no binary of the changed tree behind (the checks rebuild anyway; developer tools
        # that use the cached binaries directly do not)
        sys.path.insert(0, V)
        if not a.no_rebuild:
            try:
                from vlib import common as _C
                _C.build_idlc("debug")
                _C.build_probe()
            except Exception as e:  # noqa
                print("WARNING: rebuild after undo failed:", e)
    res["detected_by"] = sorted(k for k, v in res["checks"].items() if v["rc"] == 1 and v["violation_lines"])
    json.dump(res, open(os.path.join(d, "result.json"), "w"), indent=1, sort_keys=True)
    print("detected by:", res["detected_by"])


if __name__ == "__main__":
    main()
