//! A pest parser derived from /repo's *current* grammar file, so that the pair trees the
//! real parser produces are observable without touching the repository (pst::IDLParser is
//! private there).
use pest::iterators::Pair;
use pest::Parser;
use pest_derive::Parser;
use std::io::Write;
use std::path::Path;

#[derive(Parser)]
#[grammar = "../../../repo/idlc_ast/src/idl_grammar.pest"]
pub struct Idl;

fn sexp(p: Pair<Rule>, out: &mut String) {
    let rule = format!("{:?}", p.as_rule());
    let text = p.as_str().to_string();
    let inner: Vec<Pair<Rule>> = p.into_inner().collect();
    if inner.is_empty() {
        out.push_str(&format!("({rule} {:?})", text));
    } else {
        out.push_str(&format!("({rule}"));
        for c in inner {
            out.push(' ');
            sexp(c, out);
        }
        out.push(')');
    }
}

pub fn dump(path: &Path, w: &mut dyn Write) {
    let Ok(text) = std::fs::read_to_string(path) else {
        writeln!(w, "pst io-error").unwrap();
        return;
    };
    match Idl::parse(Rule::idl, &text) {
        Ok(pairs) => {
            let mut s = String::new();
            for p in pairs {
                sexp(p, &mut s);
            }
            writeln!(w, "pst ok {s}").unwrap();
        }
        Err(_) => writeln!(w, "pst error").unwrap(),
    }
}
