//! idlc_probe — links /repo's crates through their public API and prints canonical facts
//! about what the *real* pipeline does (engine E1), and regenerates the finite tables that
//! the Lean kernel checks against the model (engine E0).
//!
//! Commands (one per process, or one per line in `serve` mode):
//!   facts <cli|lib> <ub:0|1> <root> <main-rel> [<incdir-rel>...]
//!   tables
//!   serve
use std::collections::BTreeSet;
use std::io::{BufRead, Write};
use std::num::NonZeroU16;
use std::panic::{catch_unwind, AssertUnwindSafe};
use std::path::{Path, PathBuf};

use idlc_ast_passes::{cycles, functions, idl_store::IDLStore, struct_verifier, CompilerPass};
use idlc_codegen::counts::Counter;
use idlc_codegen::functions::{visit_params_with_bundling, ParameterVisitor};
use idlc_codegen::serialization::{PackedPrimitives, Type as PType};
use idlc_mir::{
    Count, Function, Ident, InterfaceNode, Node, Param, ParamTypeIn, ParamTypeOut, Primitive,
    Struct, StructField, StructInner, Type,
};
use idlc_mir_passes::{interface_verifier, MirCompilerPass};

mod pst;
mod tables;

fn quiet<T>(f: impl FnOnce() -> T) -> Result<T, ()> {
    catch_unwind(AssertUnwindSafe(f)).map_err(|_| ())
}

fn rel(root: &Path, p: &Path) -> String {
    match p.strip_prefix(root) {
        Ok(r) => r.display().to_string(),
        Err(_) => p.display().to_string(),
    }
}

pub fn prim_name(p: Primitive) -> &'static str {
    match p {
        Primitive::Uint8 => "uint8",
        Primitive::Uint16 => "uint16",
        Primitive::Uint32 => "uint32",
        Primitive::Uint64 => "uint64",
        Primitive::Int8 => "int8",
        Primitive::Int16 => "int16",
        Primitive::Int32 => "int32",
        Primitive::Int64 => "int64",
        Primitive::Float32 => "float32",
        Primitive::Float64 => "float64",
    }
}

fn objs_text(s: &StructInner) -> String {
    s.objects()
        .iter()
        .map(|(path, t)| {
            format!(
                "{}:{}",
                path.iter().map(|i| i.ident.as_str()).collect::<Vec<_>>().join("."),
                t.unwrap_or("-")
            )
        })
        .collect::<Vec<_>>()
        .join(",")
}

fn struct_text(s: &Struct) -> String {
    let (small, inner) = match s {
        Struct::Small(i) => (1, i),
        Struct::Big(i) => (0, i),
    };
    format!(
        "{} size={} small={} objs=[{}]",
        inner.ident.ident,
        inner.size(),
        small,
        objs_text(inner)
    )
}

#[derive(Default)]
struct Recorder {
    evs: Vec<String>,
}

impl ParameterVisitor for Recorder {
    fn visit_input_primitive_buffer(&mut self, ident: &Ident, ty: Primitive) {
        self.evs.push(format!("iprimbuf:{}({})", prim_name(ty), ident.ident));
    }
    fn visit_input_untyped_buffer(&mut self, ident: &Ident) {
        self.evs.push(format!("iubuf({})", ident.ident));
    }
    fn visit_input_struct_buffer(&mut self, ident: &Ident, ty: &StructInner) {
        self.evs.push(format!("istructbuf:{}({})", ty.ident.ident, ident.ident));
    }
    fn visit_input_primitive(&mut self, ident: &Ident, ty: Primitive) {
        self.evs.push(format!("iprim:{}({})", prim_name(ty), ident.ident));
    }
    fn visit_input_bundled(&mut self, _: &PackedPrimitives) {
        self.evs.push("IB".to_string());
    }
    fn visit_input_big_struct(&mut self, ident: &Ident, ty: &StructInner) {
        self.evs.push(format!("ibig:{}({})", ty.ident.ident, ident.ident));
    }
    fn visit_input_small_struct(&mut self, ident: &Ident, ty: &StructInner) {
        self.evs.push(format!("ismall:{}({})", ty.ident.ident, ident.ident));
    }
    fn visit_input_object(&mut self, ident: &Ident, ty: Option<&str>) {
        self.evs.push(format!("iobj:{}({})", ty.unwrap_or("-"), ident.ident));
    }
    fn visit_input_object_array(&mut self, ident: &Ident, ty: Option<&str>, cnt: Count) {
        self.evs.push(format!("iobjarr:{}:{}({})", ty.unwrap_or("-"), cnt.get(), ident.ident));
    }
    fn visit_output_primitive_buffer(&mut self, ident: &Ident, ty: Primitive) {
        self.evs.push(format!("oprimbuf:{}({})", prim_name(ty), ident.ident));
    }
    fn visit_output_untyped_buffer(&mut self, ident: &Ident) {
        self.evs.push(format!("oubuf({})", ident.ident));
    }
    fn visit_output_struct_buffer(&mut self, ident: &Ident, ty: &StructInner) {
        self.evs.push(format!("ostructbuf:{}({})", ty.ident.ident, ident.ident));
    }
    fn visit_output_primitive(&mut self, ident: &Ident, ty: Primitive) {
        self.evs.push(format!("oprim:{}({})", prim_name(ty), ident.ident));
    }
    fn visit_output_bundled(&mut self, _: &PackedPrimitives) {
        self.evs.push("OB".to_string());
    }
    fn visit_output_big_struct(&mut self, ident: &Ident, ty: &StructInner) {
        self.evs.push(format!("obig:{}({})", ty.ident.ident, ident.ident));
    }
    fn visit_output_small_struct(&mut self, ident: &Ident, ty: &StructInner) {
        self.evs.push(format!("osmall:{}({})", ty.ident.ident, ident.ident));
    }
    fn visit_output_object(&mut self, ident: &Ident, ty: Option<&str>) {
        self.evs.push(format!("oobj:{}({})", ty.unwrap_or("-"), ident.ident));
    }
    fn visit_output_object_array(&mut self, ident: &Ident, ty: Option<&str>, cnt: Count) {
        self.evs.push(format!("oobjarr:{}:{}({})", ty.unwrap_or("-"), cnt.get(), ident.ident));
    }
}

fn bundle_text<'a>(
    by_ident: impl Iterator<Item = (&'a Ident, &'a PType)>,
    by_index: impl Iterator<Item = (usize, &'a PType)>,
) -> String {
    by_ident
        .zip(by_index)
        .map(|((id, ty), (nth, _))| format!("{}:{}:{}", id.ident, ty.size(), nth))
        .collect::<Vec<_>>()
        .join(",")
}

/// facts of one function; Err(()) when a backend-side fatal path fires
fn method_fact(iface: &str, owner: &str, f: &Function) -> Result<String, ()> {
    let c = quiet(|| Counter::new(f))?;
    let pp = quiet(|| PackedPrimitives::new(f))?;
    let mut rec = Recorder::default();
    quiet(|| visit_params_with_bundling(f, &mut rec))?;
    Ok(format!(
        "method {} {} {} opt={} counts={},{},{},{} ibundle=[{}]:{} obundle=[{}]:{} events=[{}]",
        iface,
        owner,
        f.ident.ident,
        if f.is_optional() { 1 } else { 0 },
        c.input_buffers,
        c.output_buffers,
        c.input_objects,
        c.output_objects,
        bundle_text(pp.inputs_by_idents(), pp.inputs_by_index()),
        pp.packed_input_size(),
        bundle_text(pp.outputs_by_idents(), pp.outputs_by_index()),
        pp.packed_output_size(),
        rec.evs.join(" ")
    ))
}

fn iface_facts(i: &idlc_mir::Interface, out: &mut BTreeSet<String>) -> Result<(), ()> {
    let name = i.ident.ident.as_str();
    // ancestor-first: the iterator yields leaf first
    let chain: Vec<&idlc_mir::Interface> = i.iter().collect();
    for lvl in chain.iter().rev() {
        let owner = lvl.ident.ident.as_str();
        for n in &lvl.nodes {
            match n {
                InterfaceNode::Function(f) => {
                    out.insert(format!("op {} {} {} {}", name, owner, f.ident.ident, f.id));
                    out.insert(method_fact(name, owner, f)?);
                    for p in &f.params {
                        if let Type::Struct(s) = p.r#type() {
                            out.insert(format!("stype {}", struct_text(s)));
                        }
                    }
                }
                InterfaceNode::Error(e) => {
                    out.insert(format!("err {} {} {} {}", name, owner, e.ident.ident, e.value));
                }
                InterfaceNode::Const(_) => {}
            }
        }
    }
    Ok(())
}

fn all_idl_files(root: &Path, out: &mut Vec<PathBuf>) {
    if let Ok(rd) = std::fs::read_dir(root) {
        for e in rd.flatten() {
            let p = e.path();
            let Ok(meta) = std::fs::symlink_metadata(&p) else { continue };
            if meta.is_dir() {
                all_idl_files(&p, out);
            } else if meta.is_file() && p.extension().map(|x| x == "idl").unwrap_or(false) {
                out.push(p);
            }
        }
    }
}

pub fn facts(entry: &str, ub: bool, root: &Path, main_rel: &str, incdirs: &[String], w: &mut dyn Write) {
    let root = root.canonicalize().unwrap();
    let reject = |w: &mut dyn Write, stage: &str| {
        writeln!(w, "verdict reject {stage}").unwrap();
    };
    let main = root.join(main_rel);
    let Ok(main) = main.canonicalize() else { return reject(w, "include") };
    let mut include_paths: Vec<PathBuf> = incdirs.iter().map(|d| root.join(d)).collect();
    if entry == "cli" {
        include_paths.push(main.parent().unwrap().to_path_buf());
    }
    // lib.rs builds the store with allow_undefined_behavior = false
    let allow = if entry == "lib" { false } else { ub };
    let mut store = IDLStore::with_includes(&include_paths, allow);
    let Ok(ast) = quiet(|| store.get_or_insert(&main)) else { return reject(w, "load") };
    let toponodes = match quiet(|| store.run_pass(&ast)) {
        Ok(Ok(t)) => t,
        _ => return reject(w, "include"),
    };
    match quiet(|| functions::Functions::new().run_pass(&ast)) {
        Ok(Ok(())) => {}
        _ => return reject(w, "params"),
    }
    let order = match quiet(|| cycles::Cycles::new(&store).run_pass(&ast)) {
        Ok(Ok(o)) => o,
        _ => return reject(w, "cycles"),
    };
    match quiet(|| struct_verifier::StructVerifier::run_pass(&store, &order)) {
        Ok(Ok(())) => {}
        _ => return reject(w, "structs"),
    }
    let Ok(mir) = quiet(|| idlc_mir::mir::parse_to_mir(&ast, &mut store)) else {
        return reject(w, "mir");
    };
    if entry == "cli" {
        if quiet(|| interface_verifier::InterfaceVerifier::new(&mir).run_pass()).is_err() {
            return reject(w, "ifaces");
        }
    }
    let mut out = BTreeSet::new();
    for n in &mir.nodes {
        match n.as_ref() {
            Node::Struct(s) => {
                out.insert(format!("struct {}", struct_text(s)));
            }
            Node::Interface(i) => {
                if iface_facts(i, &mut out).is_err() {
                    return reject(w, "backend");
                }
            }
            _ => {}
        }
    }
    writeln!(w, "verdict accept").unwrap();
    // store facts
    let mut files = Vec::new();
    all_idl_files(&root, &mut files);
    let mut loaded = BTreeSet::new();
    let mut syms = BTreeSet::new();
    for f in &files {
        let Ok(c) = f.canonicalize() else { continue };
        if let Ok(Some(a)) = quiet(|| store.get_ast(&c)) {
            loaded.insert(rel(&root, &c));
            for n in &a.nodes {
                match n.as_ref() {
                    idlc_ast::Node::Struct(s) => {
                        let origin = store.struct_lookup(&s.ident.ident).map(|x| rel(&root, &x.1)).unwrap_or_default();
                        syms.insert(format!("sym struct {} {}", s.ident.ident, origin));
                    }
                    idlc_ast::Node::Interface(i) => {
                        let origin = store.struct_lookup(&i.ident.ident).map(|x| rel(&root, &x.1)).unwrap_or_default();
                        syms.insert(format!("sym iface {} {}", i.ident.ident, origin));
                    }
                    idlc_ast::Node::Const(c0) => {
                        syms.insert(format!("sym const {} {}", c0.ident.ident, rel(&root, &c)));
                    }
                    _ => {}
                }
            }
        }
    }
    writeln!(w, "loaded {}", loaded.iter().cloned().collect::<Vec<_>>().join(" ")).unwrap();
    let tn: BTreeSet<String> = toponodes.iter().map(|p| rel(&root, Path::new(p))).collect();
    writeln!(w, "toponodes {}", tn.into_iter().collect::<Vec<_>>().join(" ")).unwrap();
    for s in syms {
        writeln!(w, "{s}").unwrap();
    }
    for l in out {
        writeln!(w, "{l}").unwrap();
    }
    // names of the files the multi-file backends would write (the real generators)
    use idlc_codegen::Generator as _;
    let names = |d: idlc_codegen::Descriptor| {
        let mut v: Vec<String> = d.iter().map(|(p, _)| p.display().to_string()).collect();
        v.sort();
        v.join(" ")
    };
    match quiet(|| idlc_codegen_rust::Generator::generate(&mir)) {
        Ok(d) => writeln!(w, "files rust {}", names(d)).unwrap(),
        Err(()) => writeln!(w, "files rust !panic").unwrap(),
    }
    match quiet(|| idlc_codegen_java::Generator::generate(&mir)) {
        Ok(d) => writeln!(w, "files java {}", names(d)).unwrap(),
        Err(()) => writeln!(w, "files java !panic").unwrap(),
    }
}

/// result of the real library entry point (lib.rs `Language::generate`)
pub fn libgen(root: &Path, main_rel: &str, incdirs: &[String], w: &mut dyn Write) {
    let root = root.canonicalize().unwrap();
    let main = root.join(main_rel);
    let include_paths: Vec<PathBuf> = incdirs.iter().map(|d| root.join(d)).collect();
    let r = quiet(|| idlc::Language::Rust.generate(&include_paths, &main).map_err(|e| e.to_string()));
    match r {
        Ok(Ok(desc)) => {
            writeln!(w, "lib ok").unwrap();
            let mut names: Vec<String> = desc.iter().map(|(p, c)| format!("{}:{}", p.display(), c.len())).collect();
            names.sort();
            for n in names {
                writeln!(w, "libfile {n}").unwrap();
            }
        }
        Ok(Err(_)) => writeln!(w, "lib err").unwrap(),
        Err(()) => writeln!(w, "lib panic").unwrap(),
    }
}

/// the library entry point on the paths exactly as spelled by the caller (no canonicalisation
/// here): names and content hashes of what it returns
pub fn libgen_spelled(main: &str, incdirs: &[String], w: &mut dyn Write) {
    let include_paths: Vec<PathBuf> = incdirs.iter().map(PathBuf::from).collect();
    let main = PathBuf::from(main);
    let r = quiet(|| idlc::Language::Rust.generate(&include_paths, &main).map_err(|e| e.to_string()));
    match r {
        Ok(Ok(desc)) => {
            writeln!(w, "lib ok").unwrap();
            let mut names: Vec<String> = desc
                .iter()
                .map(|(p, c)| format!("{}:{:016x}", p.file_name().map(|x| x.to_string_lossy().into_owned()).unwrap_or_default(), fnv(c)))
                .collect();
            names.sort();
            for n in names {
                writeln!(w, "libfile {n}").unwrap();
            }
        }
        Ok(Err(_)) => writeln!(w, "lib err").unwrap(),
        Err(()) => writeln!(w, "lib panic").unwrap(),
    }
}

fn fnv(s: &str) -> u64 {
    let mut h: u64 = 0xcbf29ce484222325;
    for b in s.bytes() {
        h ^= b as u64;
        h = h.wrapping_mul(0x100000001b3);
    }
    h
}

/// run the whole command-line pipeline in-process (same calls, same order as main.rs) and
/// print a hash of what each backend would write; `reject` if any stage refuses
pub fn gen(ub: bool, root: &Path, main_rel: &str, incdirs: &[String], w: &mut dyn Write) {
    use idlc_codegen::{Generator as _, SplitInvokeGenerator as _};
    let root = root.canonicalize().unwrap();
    let Ok(main) = root.join(main_rel).canonicalize() else {
        writeln!(w, "reject").unwrap();
        return;
    };
    let mut include_paths: Vec<PathBuf> = incdirs.iter().map(|d| root.join(d)).collect();
    include_paths.push(main.parent().unwrap().to_path_buf());
    let r = quiet(|| {
        let mut store = IDLStore::with_includes(&include_paths, ub);
        let ast = store.get_or_insert(&main);
        store.run_pass(&ast).map_err(|_| ())?;
        functions::Functions::new().run_pass(&ast).map_err(|_| ())?;
        let order = cycles::Cycles::new(&store).run_pass(&ast).map_err(|_| ())?;
        struct_verifier::StructVerifier::run_pass(&store, &order).map_err(|_| ())?;
        let mir = idlc_mir::mir::parse_to_mir(&ast, &mut store);
        interface_verifier::InterfaceVerifier::new(&mir).run_pass();
        Ok::<_, ()>(mir)
    });
    let mir = match r {
        Ok(Ok(m)) => m,
        _ => {
            writeln!(w, "reject").unwrap();
            return;
        }
    };
    writeln!(w, "accept").unwrap();
    let mut one = |name: &str, f: &dyn Fn() -> String| match quiet(f) {
        Ok(t) => writeln!(w, "gen {name} {:016x} {}", fnv(&t), t.len()).unwrap(),
        Err(()) => writeln!(w, "gen {name} !panic").unwrap(),
    };
    one("c-stub", &|| idlc_codegen_c::Generator::new(false).generate_implementation(&mir));
    one("c-skel", &|| idlc_codegen_c::Generator::new(false).generate_invoke(&mir));
    one("c-stub-untyped", &|| idlc_codegen_c::Generator::new(true).generate_implementation(&mir));
    one("c-skel-untyped", &|| idlc_codegen_c::Generator::new(true).generate_invoke(&mir));
    one("cpp-stub", &|| idlc_codegen_cpp::Generator.generate_implementation(&mir));
    one("cpp-skel", &|| idlc_codegen_cpp::Generator.generate_invoke(&mir));
    let multi = |d: idlc_codegen::Descriptor| {
        let mut v: Vec<(String, String)> = d.into_iter().map(|(p, c)| (p.display().to_string(), c)).collect();
        v.sort();
        v.into_iter().map(|(p, c)| format!("{p}\n{c}")).collect::<Vec<_>>().join("\n---\n")
    };
    one("rust", &|| multi(idlc_codegen_rust::Generator::generate(&mir)));
    one("java", &|| multi(idlc_codegen_java::Generator::generate(&mir)));
}

fn dispatch(args: &[String], w: &mut dyn Write) {
    match args.first().map(String::as_str) {
        Some("facts") if args.len() >= 5 => {
            facts(&args[1], args[2] == "1", Path::new(&args[3]), &args[4], &args[5..], w);
        }
        Some("gen") if args.len() >= 4 => gen(args[1] == "1", Path::new(&args[2]), &args[3], &args[4..], w),
        Some("libgen2") if args.len() >= 2 => libgen_spelled(&args[1], &args[2..], w),
        Some("libgen") if args.len() >= 3 => libgen(Path::new(&args[1]), &args[2], &args[3..], w),
        Some("pst") if args.len() >= 2 => pst::dump(Path::new(&args[1]), w),
        Some("tables") => tables::emit(w),
        _ => {
            writeln!(w, "bad-request").unwrap();
        }
    }
}

fn main() {
    if std::env::var_os("PROBE_VERBOSE").is_none() {
        std::panic::set_hook(Box::new(|_| {}));
    }
    let args: Vec<String> = std::env::args().skip(1).collect();
    let stdout = std::io::stdout();
    if args.first().map(String::as_str) == Some("serve") {
        let stdin = std::io::stdin();
        for line in stdin.lock().lines() {
            let Ok(line) = line else { break };
            let a: Vec<String> = line.split_whitespace().map(str::to_string).collect();
            let mut w = stdout.lock();
            dispatch(&a, &mut w);
            writeln!(w, ".").unwrap();
            w.flush().unwrap();
        }
    } else {
        let mut w = stdout.lock();
        dispatch(&args, &mut w);
    }
}

#[allow(dead_code)]
pub fn mk_ident(s: &str) -> Ident {
    Ident::new_without_span(s.to_string())
}

#[allow(dead_code)]
pub fn one() -> NonZeroU16 {
    NonZeroU16::new(1).unwrap()
}

#[allow(dead_code)]
pub fn mk_struct(name: &str, fields: Vec<(&str, Type, u16)>) -> StructInner {
    StructInner {
        ident: mk_ident(name),
        fields: fields
            .into_iter()
            .map(|(n, t, c)| StructField { ident: mk_ident(n), val: (t, NonZeroU16::new(c).unwrap()) })
            .collect(),
        origin: None,
    }
}

#[allow(dead_code)]
pub fn mk_param(input: bool, ty: Type, arr: Option<Option<u16>>, name: &str) -> Param {
    let ident = mk_ident(name);
    if input {
        Param::In {
            r#type: match arr {
                None => ParamTypeIn::Value(ty),
                Some(c) => ParamTypeIn::Array(ty, c.map(|n| NonZeroU16::new(n).unwrap())),
            },
            ident,
        }
    } else {
        Param::Out {
            r#type: match arr {
                None => ParamTypeOut::Reference(ty),
                Some(c) => ParamTypeOut::Array(ty, c.map(|n| NonZeroU16::new(n).unwrap())),
            },
            ident,
        }
    }
}
