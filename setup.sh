#!/bin/sh
# MANIFEST.setup_cmd: build the framework from files on disk only (offline).
set -e
cd "$(dirname "$0")"
export CARGO_NET_OFFLINE=true
mkdir -p .cache
[ -f probe/Cargo.lock ] || cp /repo/Cargo.lock probe/Cargo.lock
(cd probe && cargo build --offline)
(cd /repo && cargo build --offline -p idlc --target-dir /verif/.cache/target)
(cd /repo && cargo build --offline -p idlc --release --target-dir /verif/.cache/target)
.cache/probe-target/debug/idlc_probe tables > lean/MinkModel/Generated/Tables.lean.new
if ! cmp -s lean/MinkModel/Generated/Tables.lean.new lean/MinkModel/Generated/Tables.lean; then
  mv lean/MinkModel/Generated/Tables.lean.new lean/MinkModel/Generated/Tables.lean
else
  rm lean/MinkModel/Generated/Tables.lean.new
fi
(cd lean && lake build)
echo setup-ok
